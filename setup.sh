#!/bin/sh
# Builds the framework offline from files on disk (MANIFEST.setup_cmd).
set -e
cd "$(dirname "$0")/engine"
export GOFLAGS=-mod=mod GOPROXY=off GOTOOLCHAIN=local GOSUMDB=off
export PATH=/opt/veriftools/go1.26.8/bin:$PATH
mkdir -p ../bin
go build -o ../bin/gosymx ./cmd/gosymx
