export GOFLAGS=-mod=mod GOPROXY=off GOTOOLCHAIN=local GOSUMDB=off
export PATH=/opt/veriftools/go1.26.8/bin:$PATH
