//go:build verif

package go_clipper2

// H_C09_open: an open axis-parallel subject polyline (shapes of vPolyline)
// clipped against a symbolic clip rectangle (withSubj != 0: plus a symbolic
// closed subject rectangle).
func H_C09_open(shape, ct, fr, withSubj int64) {
	line := vPolyline("l", shape, vB29)
	in := append(Path64{}, line...)
	clip := Paths64{vRect("c", vB29)}
	var closedSubj Paths64
	if withSubj != 0 {
		// the closed subject overlaps the clip rectangle in staggered position
		// (s.x0 < c.x0 < s.x1 < c.x1, same in y); sides stay symbolic
		closedSubj = Paths64{vRect("s", vB29)}
		gs, gc := vGridOf(closedSubj), vGridOf(clip)
		vAssume(vAnd(vAnd(gs.X[0] < gc.X[0], gc.X[0] < gs.X[1]), gs.X[1] < gc.X[1]))
		vAssume(vAnd(vAnd(gs.Y[0] < gc.Y[0], gc.Y[0] < gs.Y[1]), gs.Y[1] < gc.Y[1]))
	}
	c, f := ClipType(ct), FillRule(fr)
	e := NewClipper64()
	if closedSubj != nil {
		e.AddPaths(closedSubj, Subject, false)
	}
	e.AddPaths(Paths64{line}, Subject, true)
	e.AddPaths(clip, Clip, false)
	solClosed, solOpen := make(Paths64, 0), make(Paths64, 0)
	ok := e.ExecuteOC(c, f, &solClosed, &solOpen)
	vAssert("C09.execute-ok", ok)
	vObservePaths("open", solOpen)
	vObservePaths("closed", solClosed)
	vCover("C09.done")

	// open paths never appear in, or alter, the closed solution
	var ref Paths64
	if closedSubj != nil {
		ref = BooleanOpPaths64(c, closedSubj, clip, f)
	} else {
		ref = BooleanOpPaths64(c, Paths64{}, clip, f)
	}
	vSamePaths("C09.closed-solution-unaffected", solClosed, ref)

	// the open solution consists of pieces of the subject line
	for _, p := range solOpen {
		vAssert("C09.open-piece-has-2-points", len(p) >= 2)
		for _, pt := range p {
			on := false
			for k := 0; k+1 < len(in); k++ {
				on = vOr(on, vNearSeg(in[k], in[k+1], pt, 1))
			}
			vAssert("C09.vertex-on-subject-line", on)
		}
	}
	// a symbolic point of each subject segment, far from every closed edge
	closedIn := append(Paths64{}, clip...)
	closedIn = append(closedIn, closedSubj...)
	for k := 0; k+1 < len(in); k++ {
		a, b := in[k], in[k+1]
		var q Point64
		if a.Y == b.Y {
			q = Point64{vInt("qt", -vB29, vB29), a.Y}
			vAssume(vAnd(q.X >= vMin(a.X, b.X), q.X <= vMax(a.X, b.X)))
		} else {
			q = Point64{a.X, vInt("qt", -vB29, vB29)}
			vAssume(vAnd(q.Y >= vMin(a.Y, b.Y), q.Y <= vMax(a.Y, b.Y)))
		}
		far := vFar(closedIn, q, 2)
		inClip := vFill(f, vWind(clip, q))
		inSubj := false
		if closedSubj != nil {
			inSubj = vFill(f, vWind(closedSubj, q))
		}
		var want bool
		switch c {
		case Intersection:
			want = inClip
		case Difference:
			want = !inClip
		case Union:
			want = vAnd(!inClip, !inSubj)
		default:
			want = vAnd(!inClip, !inSubj) // Xor: same reading as Union for open paths
		}
		covered := false
		for _, p := range solOpen {
			for i := 0; i+1 < len(p); i++ {
				covered = vOr(covered, vNearSeg(p[i], p[i+1], q, 1))
			}
		}
		vAssert("C09.covered-iff", vImplies(far, covered == want))
	}
}
