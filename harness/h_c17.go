//go:build verif

package go_clipper2

func vRotate(p Path64, k int) Path64 {
	n := len(p)
	out := make(Path64, 0, n)
	for i := 0; i < n; i++ {
		out = append(out, p[(i+k)%n])
	}
	return out
}

func vReversed(p Path64) Path64 {
	n := len(p)
	out := make(Path64, 0, n)
	for i := n - 1; i >= 0; i-- {
		out = append(out, p[i])
	}
	return out
}

func vMapPaths(ps Paths64, f func(Path64) Path64) Paths64 {
	if ps == nil {
		return nil
	}
	out := make(Paths64, 0, len(ps))
	for _, p := range ps {
		out = append(out, f(p))
	}
	return out
}

func vMapPoints(ps Paths64, f func(Point64) Point64) Paths64 {
	return vMapPaths(ps, func(p Path64) Path64 {
		out := make(Path64, 0, len(p))
		for _, pt := range p {
			out = append(out, f(pt))
		}
		return out
	})
}

// H_C17_R: the same boolean operation on two spellings of the same input;
// the regions must agree cell by cell. tr selects the transformation:
//
//	0 permute the paths of each set (reverse order)   1 start each path at its 2nd vertex
//	2 repeat the closing vertex                        3 repeat the 2nd vertex
//	4 reverse the first subject path (EvenOdd only)    5 reverse everything (NonZero; Positive<->Negative)
//	6 exchange subject and clip (Union, Intersection, Xor)
//	7 mirror x -> -x    8 mirror y -> -y    9 rotate by 90 degrees (x,y) -> (-y,x)
func H_C17_R(fam, ct, fr, tr int64) {
	subj, clip := vFamily(fam)
	c, f := ClipType(ct), FillRule(fr)
	sol := BooleanOpPaths64(c, subj, clip, f)
	s2, c2, f2 := subj, clip, f
	back := func(p Point64) Point64 { return p }
	switch tr {
	case 0:
		rev := func(ps Paths64) Paths64 {
			if ps == nil {
				return nil
			}
			out := make(Paths64, 0, len(ps))
			for i := len(ps) - 1; i >= 0; i-- {
				out = append(out, ps[i])
			}
			return out
		}
		s2, c2 = rev(subj), rev(clip)
	case 1:
		s2, c2 = vMapPaths(subj, func(p Path64) Path64 { return vRotate(p, 1) }), vMapPaths(clip, func(p Path64) Path64 { return vRotate(p, 1) })
	case 2:
		dup := func(p Path64) Path64 { return append(append(Path64{}, p...), p[0]) }
		s2, c2 = vMapPaths(subj, dup), vMapPaths(clip, dup)
	case 3:
		dup := func(p Path64) Path64 {
			out := Path64{p[0], p[1], p[1]}
			return append(out, p[2:]...)
		}
		s2, c2 = vMapPaths(subj, dup), vMapPaths(clip, dup)
	case 4:
		vAssume(f == EvenOdd)
		s2 = append(Paths64{vReversed(subj[0])}, subj[1:]...)
	case 5:
		vAssume(f != EvenOdd)
		s2, c2 = vMapPaths(subj, vReversed), vMapPaths(clip, vReversed)
		if f == Positive {
			f2 = Negative
		} else if f == Negative {
			f2 = Positive
		}
	case 6:
		vAssume(c != Difference && clip != nil)
		s2, c2 = clip, subj
	case 7:
		fw := func(p Point64) Point64 { return Point64{-p.X, p.Y} }
		s2, c2, back = vMapPoints(subj, fw), vMapPoints(clip, fw), fw
	case 8:
		fw := func(p Point64) Point64 { return Point64{p.X, -p.Y} }
		s2, c2, back = vMapPoints(subj, fw), vMapPoints(clip, fw), fw
	case 9:
		fw := func(p Point64) Point64 { return Point64{-p.Y, p.X} }
		s2, c2 = vMapPoints(subj, fw), vMapPoints(clip, fw)
		back = func(p Point64) Point64 { return Point64{p.Y, -p.X} }
	}
	sol2 := BooleanOpPaths64(c, s2, c2, f2)
	sol2 = vMapPoints(sol2, back)
	if sol2 == nil {
		sol2 = Paths64{}
	}
	cl := clip
	if cl == nil {
		cl = Paths64{}
	}
	g := vGridOf(subj, cl, sol, sol2)
	// mirrored solutions have reversed orientation: compare as regions (NonZero reading)
	vCellsAgree("C17.same-region", g, vCellInside("C17.a", g, sol, NonZero), vCellInside("C17.b", g, sol2, NonZero), 2, subj, cl)
	vCover("C17.done")
}

// H_C17_twice: equal inputs, two calls, bit-identical outputs.
func H_C17_twice(fam, ct, fr int64) {
	subj, clip := vFamily(fam)
	a := BooleanOpPaths64(ClipType(ct), subj, clip, FillRule(fr))
	b := BooleanOpPaths64(ClipType(ct), subj, clip, FillRule(fr))
	vAssert("C17.twice.count", len(a) == len(b))
	if len(a) == len(b) {
		for i := range a {
			vAssert("C17.twice.len", len(a[i]) == len(b[i]))
			if len(a[i]) == len(b[i]) {
				for k := range a[i] {
					vAssert("C17.twice.vertex", vPtEq(a[i][k], b[i][k]))
				}
			}
		}
	}
	vCover("C17.twice.done")
}
