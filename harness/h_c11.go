//go:build verif

package go_clipper2

// vPolyline: symbolic axis-parallel open polylines.
//
//	0: horizontal segment   1: vertical segment
//	2: L (horizontal then vertical)   3: L (vertical then horizontal)
//	4: three collinear horizontal points (any order of the x's)
//	5: four-point staple (vertical, horizontal, vertical back)
func vPolyline(name string, shape int64, bound int64) Path64 {
	x0, x1, x2 := vInt(name+"x0", -bound, bound), vInt(name+"x1", -bound, bound), vInt(name+"x2", -bound, bound)
	y0, y1 := vInt(name+"y0", -bound, bound), vInt(name+"y1", -bound, bound)
	switch shape {
	case 0:
		vAssume(x0 != x1)
		return Path64{{x0, y0}, {x1, y0}}
	case 1:
		vAssume(y0 != y1)
		return Path64{{x0, y0}, {x0, y1}}
	case 2:
		vAssume(x0 != x1)
		vAssume(y0 != y1)
		return Path64{{x0, y0}, {x1, y0}, {x1, y1}}
	case 3:
		vAssume(x0 != x1)
		vAssume(y0 != y1)
		return Path64{{x0, y0}, {x0, y1}, {x1, y1}}
	case 5: // staple: up (or down), across, back: a local extremum with a flat top
		vAssume(x0 != x1)
		vAssume(y0 != y1)
		return Path64{{x0, y0}, {x0, y1}, {x1, y1}, {x1, y0}}
	default:
		vAssume(x0 != x1)
		vAssume(x1 != x2)
		return Path64{{x0, y0}, {x1, y0}, {x2, y0}}
	}
}

// vNearSeg: q lies within m of the axis-parallel (up to rounding) segment ab.
func vNearSeg(a, b, q Point64, m int64) bool {
	return vAnd(vAnd(q.X >= vMin(a.X, b.X)-m, q.X <= vMax(a.X, b.X)+m), vAnd(q.Y >= vMin(a.Y, b.Y)-m, q.Y <= vMax(a.Y, b.Y)+m))
}

// H_C11_lines: RectClipLinesPaths64 of one symbolic axis-parallel polyline.
func H_C11_lines(shape int64) {
	rect := vClipRect("r", vB29)
	line := vPolyline("l", shape, vB29)
	in := append(Path64{}, line...)
	var out Paths64
	panicked, _ := vCatch(func() { out = RectClipLinesPaths64(rect, Paths64{line}) })
	vAssert("C11.no-panic", !panicked)
	if panicked {
		return
	}
	vObservePaths("out", out)
	vCover("C11.done")
	for _, p := range out {
		vAssert("C11.open-path-has-2-points", len(p) >= 2)
		for _, pt := range p {
			vAssert("C11.vertex-in-rect", vAnd(vAnd(pt.X >= rect.left-1, pt.X <= rect.right+1), vAnd(pt.Y >= rect.top-1, pt.Y <= rect.bottom+1)))
			on := false
			for k := 0; k+1 < len(in); k++ {
				on = vOr(on, vNearSeg(in[k], in[k+1], pt, 1))
			}
			vAssert("C11.vertex-on-line", on)
		}
		if len(p) >= 2 && shape != 4 {
			// (shape 4 may legitimately back-track onto its own start)
			vAssert("C11.not-closed", !vPtEq(p[0], p[len(p)-1]))
		}
	}
	// a symbolic point q on one of the input segments
	for k := 0; k+1 < len(in); k++ {
		a, b := in[k], in[k+1]
		var q Point64
		if a.Y == b.Y {
			q = Point64{vInt("qt", -vB29, vB29), a.Y}
			vAssume(vAnd(q.X >= vMin(a.X, b.X), q.X <= vMax(a.X, b.X)))
		} else {
			q = Point64{a.X, vInt("qt", -vB29, vB29)}
			vAssume(vAnd(q.Y >= vMin(a.Y, b.Y), q.Y <= vMax(a.Y, b.Y)))
		}
		farFromRect := vFar(Paths64{rect.AsPath()}, q, 2)
		inside := vAnd(vAnd(q.X > rect.left, q.X < rect.right), vAnd(q.Y > rect.top, q.Y < rect.bottom))
		covered := false
		for _, p := range out {
			for i := 0; i+1 < len(p); i++ {
				covered = vOr(covered, vNearSeg(p[i], p[i+1], q, 1))
			}
		}
		vAssert("C11.covered-iff-inside", vImplies(farFromRect, covered == inside))
	}
}
