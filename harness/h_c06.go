//go:build verif

package go_clipper2

// vClipRect: a non-empty symbolic rectangle (left < right, top < bottom).
func vClipRect(name string, bound int64) Rect64 {
	l, r := vInt(name+"l", -bound, bound), vInt(name+"r", -bound, bound)
	t, b := vInt(name+"t", -bound, bound), vInt(name+"b", -bound, bound)
	vAssume(l < r)
	vAssume(t < b)
	return NewRect64(l, t, r, b)
}

// H_C06_rect: RectClipPaths64 of one symbolic axis-aligned rectangle path by a
// symbolic rectangle. shape 0: rectangle path, either orientation.
// vCShape: a concave rectilinear 8-gon, a rectangle with a notch cut in from
// one side (which: 0 right, 1 left, 2 top side y3, 3 bottom side y0), either orientation.
func vCShape(name string, side int64, bound int64) Path64 {
	x0, x1, x3 := vInt(name+"x0", -bound, bound), vInt(name+"x1", -bound, bound), vInt(name+"x3", -bound, bound)
	y0, y1, y2, y3 := vInt(name+"y0", -bound, bound), vInt(name+"y1", -bound, bound), vInt(name+"y2", -bound, bound), vInt(name+"y3", -bound, bound)
	vAssume(x0 < x1)
	vAssume(x1 < x3)
	vAssume(y0 < y1)
	vAssume(y1 < y2)
	vAssume(y2 < y3)
	p := Path64{{x0, y0}, {x3, y0}, {x3, y1}, {x1, y1}, {x1, y2}, {x3, y2}, {x3, y3}, {x0, y3}}
	switch side {
	case 1: // mirror in x
		for i := range p {
			p[i].X = -p[i].X
		}
		p = vReversed(p)
	case 2: // transpose
		for i := range p {
			p[i].X, p[i].Y = p[i].Y, p[i].X
		}
		p = vReversed(p)
	case 3:
		for i := range p {
			p[i].X, p[i].Y = p[i].Y, -p[i].X
		}
	}
	if vBool(name + "rev") {
		p = vReversed(p)
	}
	return p
}

func H_C06_rect(shape int64) {
	rect := vClipRect("r", vB29)
	var paths Paths64
	if shape == 0 {
		paths = Paths64{vRect("p", vB29)}
	} else if shape == 10 {
		// L-shaped hexagon whose solid block contains the clip rectangle with all
		// four rectangle corners on the polygon's boundary (no edge crosses the
		// rectangle): rect = [x1, r] x [y0, y1] with x1 < r < x2
		x0, x1, x2 := vInt("px0", -vB29, vB29), vInt("px1", -vB29, vB29), vInt("px2", -vB29, vB29)
		y0, y1, y2 := vInt("py0", -vB29, vB29), vInt("py1", -vB29, vB29), vInt("py2", -vB29, vB29)
		vAssume(vAnd(x0 < x1, x1 < x2))
		vAssume(vAnd(y0 < y1, y1 < y2))
		p := Path64{{x0, y0}, {x2, y0}, {x2, y1}, {x1, y1}, {x1, y2}, {x0, y2}}
		if vBool("prev") {
			p = vReversed(p)
		}
		paths = Paths64{p}
		vAssume(vAnd(vAnd(rect.left == x1, rect.right < x2), vAnd(rect.top == y0, rect.bottom == y1)))
	} else if shape == 9 {
		// L-shaped hexagon, all 6 coordinates symbolic, either orientation,
		// every 90-degree rotation via the symbolic flags
		x0, x1, x2 := vInt("px0", -vB29, vB29), vInt("px1", -vB29, vB29), vInt("px2", -vB29, vB29)
		y0, y1, y2 := vInt("py0", -vB29, vB29), vInt("py1", -vB29, vB29), vInt("py2", -vB29, vB29)
		vAssume(vAnd(x0 < x1, x1 < x2))
		vAssume(vAnd(y0 < y1, y1 < y2))
		p := Path64{{x0, y0}, {x2, y0}, {x2, y1}, {x1, y1}, {x1, y2}, {x0, y2}}
		if vBool("pmx") {
			for i := range p {
				p[i].X = -p[i].X
			}
			p = vReversed(p)
		}
		if vBool("pmy") {
			for i := range p {
				p[i].Y = -p[i].Y
			}
			p = vReversed(p)
		}
		if vBool("prev") {
			p = vReversed(p)
		}
		paths = Paths64{p}
	} else if shape <= 4 {
		paths = Paths64{vCShape("p", shape-1, vB29)}
	} else {
		// "arms cut": the notch side of the C is cut off by the matching side of
		// the clip rectangle, everything else lies strictly inside it, so the
		// result touches that rectangle side in two separate stretches.
		paths = Paths64{vCShape("p", shape-5, vB29)}
		g := vGridOf(paths)
		nx, ny := len(g.X), len(g.Y)
		switch shape - 5 {
		case 0:
			vAssume(vAnd(g.X[nx-2] < rect.right, rect.right < g.X[nx-1]))
			vAssume(vAnd(rect.left < g.X[0], vAnd(rect.top < g.Y[0], rect.bottom > g.Y[ny-1])))
		case 1:
			vAssume(vAnd(g.X[0] < rect.left, rect.left < g.X[1]))
			vAssume(vAnd(rect.right > g.X[nx-1], vAnd(rect.top < g.Y[0], rect.bottom > g.Y[ny-1])))
		case 2:
			vAssume(vAnd(g.Y[ny-2] < rect.bottom, rect.bottom < g.Y[ny-1]))
			vAssume(vAnd(rect.top < g.Y[0], vAnd(rect.left < g.X[0], rect.right > g.X[nx-1])))
		case 3:
			vAssume(vAnd(g.Y[0] < rect.top, rect.top < g.Y[1]))
			vAssume(vAnd(rect.bottom > g.Y[ny-1], vAnd(rect.left < g.X[0], rect.right > g.X[nx-1])))
		}
	}
	in := Paths64{append(Path64{}, paths[0]...)}
	var out Paths64
	panicked, msg := vCatch(func() { out = RectClipPaths64(rect, paths) })
	vAssert("C06.no-panic", !panicked)
	_ = msg
	if panicked {
		return
	}
	vObservePaths("out", out)
	vCover("C06.done")
	// vertices within the rectangle (at most 1 outside)
	for _, p := range out {
		for _, pt := range p {
			vAssert("C06.vertex-in-rect", vAnd(vAnd(pt.X >= rect.left-1, pt.X <= rect.right+1), vAnd(pt.Y >= rect.top-1, pt.Y <= rect.bottom+1)))
		}
	}
	rp := Paths64{rect.AsPath()}
	// region at a symbolic probe: inside the rectangle (more than 2 from its
	// boundary and from every input edge) the winding number is preserved,
	// outside it is zero
	pr := vPt("probe", vB29+8)
	far := vAnd(vFar(in, pr, 2), vFar(rp, pr, 2))
	inRect := vAnd(vAnd(pr.X > rect.left, pr.X < rect.right), vAnd(pr.Y > rect.top, pr.Y < rect.bottom))
	want := vIte(inRect, vWind(in, pr), 0)
	vAssert("C06.winding", vImplies(far, vWind(out, pr) == want))
	// entirely inside: returned unchanged; entirely outside: nothing
	p := in[0]
	inside := true
	outside := false
	for _, pt := range p {
		inside = vAnd(inside, vAnd(vAnd(pt.X > rect.left, pt.X < rect.right), vAnd(pt.Y > rect.top, pt.Y < rect.bottom)))
	}
	g0 := vGridOf(in)
	outside = vOr(vOr(g0.X[len(g0.X)-1] < rect.left, g0.X[0] > rect.right), vOr(g0.Y[len(g0.Y)-1] < rect.top, g0.Y[0] > rect.bottom))
	same := len(out) == 1 && len(out[0]) == len(p)
	if same {
		eq := true
		for k := range p {
			eq = vAnd(eq, vPtEq(out[0][k], p[k]))
		}
		vAssert("C06.inside-unchanged", vImplies(inside, eq))
	} else {
		vAssert("C06.inside-unchanged", !inside)
	}
	if len(out) != 0 {
		vAssert("C06.outside-vanishes", !outside)
	}
}
