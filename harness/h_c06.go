//go:build verif

package go_clipper2

// vClipRect: a non-empty symbolic rectangle (left < right, top < bottom).
func vClipRect(name string, bound int64) Rect64 {
	l, r := vInt(name+"l", -bound, bound), vInt(name+"r", -bound, bound)
	t, b := vInt(name+"t", -bound, bound), vInt(name+"b", -bound, bound)
	vAssume(l < r)
	vAssume(t < b)
	return NewRect64(l, t, r, b)
}

// H_C06_rect: RectClipPaths64 of one symbolic axis-aligned rectangle path by a
// symbolic rectangle. shape 0: rectangle path, either orientation.
func H_C06_rect(shape int64) {
	rect := vClipRect("r", vB29)
	paths := Paths64{vRect("p", vB29)}
	in := Paths64{append(Path64{}, paths[0]...)}
	var out Paths64
	panicked, msg := vCatch(func() { out = RectClipPaths64(rect, paths) })
	vAssert("C06.no-panic", !panicked)
	_ = msg
	if panicked {
		return
	}
	vObservePaths("out", out)
	vCover("C06.done")
	// vertices within the rectangle (at most 1 outside)
	for _, p := range out {
		for _, pt := range p {
			vAssert("C06.vertex-in-rect", vAnd(vAnd(pt.X >= rect.left-1, pt.X <= rect.right+1), vAnd(pt.Y >= rect.top-1, pt.Y <= rect.bottom+1)))
		}
	}
	rp := Paths64{rect.AsPath()}
	g := vGridOf(in, rp, out)
	for i := 0; i+1 < len(g.X); i++ {
		for j := 0; j+1 < len(g.Y); j++ {
			wi, _ := g.vCellWind(in, i, j)
			wr, _ := g.vCellWind(rp, i, j)
			wo, ok := g.vCellWind(out, i, j)
			vAssert("C06.rectilinear-output", ok)
			want := 0
			if wr != 0 {
				want = wi
			}
			if wo != want {
				vCover("C06.mismatch-cell")
				vAssert("C06.winding", !g.vCellFarProbe(i, j, 2, vB29+8, in, rp))
			}
		}
	}
	// entirely inside: returned unchanged; entirely outside: nothing
	p := in[0]
	inside := true
	outside := false
	for _, pt := range p {
		inside = vAnd(inside, vAnd(vAnd(pt.X > rect.left, pt.X < rect.right), vAnd(pt.Y > rect.top, pt.Y < rect.bottom)))
	}
	g0 := vGridOf(in)
	outside = vOr(vOr(g0.X[len(g0.X)-1] < rect.left, g0.X[0] > rect.right), vOr(g0.Y[len(g0.Y)-1] < rect.top, g0.Y[0] > rect.bottom))
	same := len(out) == 1 && len(out[0]) == len(p)
	if same {
		eq := true
		for k := range p {
			eq = vAnd(eq, vPtEq(out[0][k], p[k]))
		}
		vAssert("C06.inside-unchanged", vImplies(inside, eq))
	} else {
		vAssert("C06.inside-unchanged", !inside)
	}
	if len(out) != 0 {
		vAssert("C06.outside-vanishes", !outside)
	}
}
