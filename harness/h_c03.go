//go:build verif

package go_clipper2

// Degenerate input shapes with symbolic coordinates (small range keeps the
// float model tight; magnitudes are C13's business).
//
//	0 empty path set          1 one empty path            2 one 1-point path
//	3 one 2-point path (horizontal or vertical)   4 three points on a horizontal line
//	5 three points on a vertical line   6 one point repeated three times
//	7 zero-width rectangle    8 zero-height rectangle     9 two coincident rectangles
//	10 rectangle with a repeated vertex and closing vertex repeated
func vDegenerate(name string, shape int64, bound int64) Paths64 {
	x0, x1, x2 := vInt(name+"x0", -bound, bound), vInt(name+"x1", -bound, bound), vInt(name+"x2", -bound, bound)
	y0, y1, y2 := vInt(name+"y0", -bound, bound), vInt(name+"y1", -bound, bound), vInt(name+"y2", -bound, bound)
	switch shape {
	case 0:
		return Paths64{}
	case 1:
		return Paths64{{}}
	case 2:
		return Paths64{{{x0, y0}}}
	case 3:
		// horizontal or vertical two-point path (fully symbolic
		// slopes are outside what the solver decides, see DESIGN 2.4)
		if vBool(name + "h") {
			return Paths64{{{x0, y0}, {x1, y0}}}
		}
		return Paths64{{{x0, y0}, {x0, y1}}}
	case 4:
		return Paths64{{{x0, y0}, {x1, y0}, {x2, y0}}}
	case 5:
		return Paths64{{{x0, y0}, {x0, y1}, {x0, y2}}}
	case 6:
		return Paths64{{{x0, y0}, {x0, y0}, {x0, y0}}}
	case 7:
		return Paths64{{{x0, y0}, {x0, y0}, {x0, y1}, {x0, y1}}}
	case 8:
		return Paths64{{{x0, y0}, {x1, y0}, {x1, y0}, {x0, y0}}}
	case 9:
		vAssume(vAnd(x0 < x1, y0 < y1))
		r := Path64{{x0, y0}, {x1, y0}, {x1, y1}, {x0, y1}}
		return Paths64{r, append(Path64{}, r...)}
	default:
		vAssume(vAnd(x0 < x1, y0 < y1))
		return Paths64{{{x0, y0}, {x1, y0}, {x1, y0}, {x1, y1}, {x0, y1}, {x0, y0}}}
	}
}

// H_C03_bool: boolean operations (paths and tree form) on a degenerate
// subject against a degenerate or ordinary clip, every clip type value 0..5
// (NoClip and one out-of-range value included) and fill rule value 0..4.
func H_C03_bool(sshape, cshape, ct, fr int64) {
	subj := vDegenerate("s", sshape, 64)
	var clip Paths64
	if cshape >= 0 {
		clip = vDegenerate("c", cshape, 64)
	} else if cshape == -1 {
		clip = Paths64{vRect("c", 64)}
	}
	// Known finding C03.noclip: with ClipType NoClip a fresh engine returns
	// false from Execute (the success flag is only set by reset(), which the
	// NoClip early return skips); same as upstream.
	vKnown("C03.noclip", ct == 0)
	panicked, msg := vCatch(func() {
		c := NewClipper64()
		c.AddPaths(subj, Subject, false)
		if clip != nil {
			c.AddPaths(clip, Clip, false)
		}
		sol := make(Paths64, 0)
		ok := c.Execute(ClipType(ct), FillRule(fr), &sol)
		vAssert("C03.execute-ok", ok)
		tree := BooleanOpPolyTree64(ClipType(ct), subj, clip, FillRule(fr))
		_ = tree
		_ = BooleanOpPaths64(ClipType(ct), subj, clip, FillRule(fr))
	})
	_ = msg
	vAssert("C03.no-panic", !panicked)
	vCover("C03.bool.done")
}

// H_C03_open: the same shapes as open subjects.
func H_C03_open(sshape, ct, fr int64) {
	subj := vDegenerate("s", sshape, 64)
	clip := Paths64{vRect("c", 64)}
	vKnown("C03.noclip", ct == 0)
	panicked, _ := vCatch(func() {
		c := NewClipper64()
		c.AddPaths(subj, Subject, true)
		c.AddPaths(clip, Clip, false)
		sol, open := make(Paths64, 0), make(Paths64, 0)
		ok := c.ExecuteOC(ClipType(ct), FillRule(fr), &sol, &open)
		vAssert("C03.execute-ok", ok)
	})
	vAssert("C03.no-panic", !panicked)
	vCover("C03.open.done")
}

// H_C03_rect: rectangle clipping of degenerate paths by a possibly empty or
// inverted rectangle.
func H_C03_rect(shape int64) {
	l, r := vInt("rl", -64, 64), vInt("rr", -64, 64)
	t, b := vInt("rt", -64, 64), vInt("rb", -64, 64)
	rect := NewRect64(l, t, r, b) // no ordering assumed: empty and inverted included
	paths := vDegenerate("p", shape, 64)
	panicked, _ := vCatch(func() {
		_ = RectClipPaths64(rect, paths)
		_ = RectClipLinesPaths64(rect, paths)
		if len(paths) > 0 {
			_ = RectClipPath64(rect, paths[0])
			_ = RectClipLinesPath64(rect, paths[0])
		}
	})
	vAssert("C03.no-panic", !panicked)
	vCover("C03.rect.done")
}

// H_C03_util: path utilities on degenerate paths.
func H_C03_util(shape int64) {
	paths := vDegenerate("p", shape, 64)
	pt := vPt("q", 64)
	panicked, _ := vCatch(func() {
		for _, p := range paths {
			_ = Area64(p)
			_ = IsPositive64(p)
			_ = GetBounds64(p)
			_ = PointInPolygon(pt, p)
			_ = StripDuplicates(p, true)
			_ = StripDuplicates(p, false)
			_ = TrimCollinear64(p, false)
			_ = TrimCollinear64(p, true)
			_ = SimplifyPath64(p, 0, true)
			_ = SimplifyPath64(p, 1.5, false)
			_ = TranslatePath64(p, 3, -3)
			_ = ReversePath(p)
			_ = Path2ContainsPath1(p, p)
		}
		_ = AreaPaths64(paths)
		_ = SimplifyPaths64(paths, 2, true)
		_ = TranslatePaths64(paths, 1, 1)
	})
	vAssert("C03.no-panic", !panicked)
	vCover("C03.util.done")
}

// H_C03_mink: Minkowski sum/difference with degenerate pattern or path.
func H_C03_mink(pshape, qshape, closed int64) {
	pat := vDegenerate("a", pshape, 32)
	pth := vDegenerate("b", qshape, 32)
	var pattern, path Path64
	if len(pat) > 0 {
		pattern = pat[0]
	}
	if len(pth) > 0 {
		path = pth[0]
	}
	panicked, _ := vCatch(func() {
		_ = MinkowskiSum64(pattern, path, closed != 0)
		_ = MinkowskiDiff64(pattern, path, closed != 0)
	})
	vAssert("C03.no-panic", !panicked)
	vCover("C03.mink.done")
}
