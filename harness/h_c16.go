//go:build verif

package go_clipper2

// H_C16_kernel: PerpendicDistFromLineSqr64 on fully symbolic points.
func H_C16_kernel() {
	pt, l1, l2 := vPt("p", vB29), vPt("a", vB29), vPt("b", vB29)
	r := PerpendicDistFromLineSqr64(pt, l1, l2)
	degenerate := vAnd(l1.X == l2.X, l1.Y == l2.Y)
	cross := (pt.X-l1.X)*(l2.Y-l1.Y) - (l2.X-l1.X)*(pt.Y-l1.Y)
	vCover("C16.kernel.reached")
	vAssert("C16.kernel.nonneg", r >= 0)
	vAssert("C16.kernel.zero-iff-collinear", (r == 0) == vOr(degenerate, cross == 0))
	// depends only on coordinate differences: any translation inside the domain
	tx, ty := vInt("tx", -vB29, vB29), vInt("ty", -vB29, vB29)
	q, m1, m2 := Point64{pt.X + tx, pt.Y + ty}, Point64{l1.X + tx, l1.Y + ty}, Point64{l2.X + tx, l2.Y + ty}
	r2 := PerpendicDistFromLineSqr64(q, m1, m2)
	vAssert("C16.kernel.translation", r2 == r)
	// Symmetry in the two line points: the kernel sees them only through the
	// integer cross product (up to sign, squared) and the integer squared
	// length, both of which are exactly symmetric; these are the facts the
	// simplify harness relies on when it accepts either argument order.
	cross2 := (pt.X-l2.X)*(l1.Y-l2.Y) - (l1.X-l2.X)*(pt.Y-l2.Y)
	vAssert("C16.kernel.symmetric.cross", cross2 == -cross)
	len1 := (l2.X-l1.X)*(l2.X-l1.X) + (l2.Y-l1.Y)*(l2.Y-l1.Y)
	len2 := (l1.X-l2.X)*(l1.X-l2.X) + (l1.Y-l2.Y)*(l1.Y-l2.Y)
	vAssert("C16.kernel.symmetric.len", len1 == len2)
}

func vPrevIdx(i, n int) int { return (i + n - 1) % n }
func vNextIdx(i, n int) int { return (i + 1) % n }

// H_C16_simplify: SimplifyPath64's bookkeeping on n fully symbolic points with
// symbolic epsilon >= 0 (kernel summarised as an arbitrary function in the
// strict run, the real kernel otherwise).
func H_C16_simplify(n, closed int64) {
	path := vPathN("p", int(n), vB29)
	in := append(Path64{}, path...)
	eps := vReal("eps", 0, 1048576)
	isClosed := closed != 0
	res := SimplifyPath64(path, eps, isClosed)
	vObservePaths("res", Paths64{res})
	vCover("C16.simplify.done")
	vAssert("C16.subseq", vEmbedsFrom(res, in, 0, 0))
	for i := range in {
		vAssert("C16.input-unchanged", vPtEq(in[i], path[i]))
	}
	if n < 4 {
		vAssert("C16.short-unchanged", len(res) == len(in))
		return
	}
	vAssert("C16.at-least-two", len(res) >= 2)
	if !isClosed && len(res) >= 1 {
		vAssert("C16.open.first", vPtEq(res[0], in[0]))
		vAssert("C16.open.last", vPtEq(res[len(res)-1], in[len(in)-1]))
	}
	m := len(res)
	if m > 2 {
		epsSq := eps * eps
		for k := 0; k < m; k++ {
			if !isClosed && (k == 0 || k == m-1) {
				continue
			}
			d1 := PerpendicDistFromLineSqr64(res[k], res[vPrevIdx(k, m)], res[vNextIdx(k, m)])
			d2 := PerpendicDistFromLineSqr64(res[k], res[vNextIdx(k, m)], res[vPrevIdx(k, m)])
			// the kernel is symmetric in the line points (H_C16_kernel); with the
			// kernel abstracted the library may have used either order
			vAssert("C16.no-near-collinear-left", vOr(d1 > epsSq, d2 > epsSq))
		}
	}
}

// H_C16_eps0: with epsilon 0 and the real kernel only exactly collinear
// vertices disappear: the exact shoelace sum of a closed path is unchanged and
// every removed vertex... (sub-sequence + area identity).
func H_C16_eps0(n, closed int64) {
	path := vPathN("p", int(n), vB29)
	in := append(Path64{}, path...)
	isClosed := closed != 0
	res := SimplifyPath64(path, 0, isClosed)
	vObservePaths("res", Paths64{res})
	vCover("C16.eps0.done")
	vAssert("C16.eps0.subseq", vEmbedsFrom(res, in, 0, 0))
	if isClosed {
		vAssert("C16.eps0.area", vShoelace(res) == vShoelace(in))
	}
	// translation invariance of the retained set: the translated run must
	// return the translated result
	tx, ty := vInt("tx", -vB29, vB29), vInt("ty", -vB29, vB29)
	moved := make(Path64, len(in))
	for i, p := range in {
		moved[i] = Point64{p.X + tx, p.Y + ty}
	}
	res2 := SimplifyPath64(moved, 0, isClosed)
	vAssert("C16.eps0.translation.len", len(res2) == len(res))
	if len(res2) == len(res) {
		for i := range res {
			vAssert("C16.eps0.translation", vAnd(res2[i].X == res[i].X+tx, res2[i].Y == res[i].Y+ty))
		}
	}
}
