//go:build verif

package go_clipper2

// Region oracles, written as ordinary Go over the harness intrinsics so that
// the executor builds the exact terms without forking and the native replay
// computes the same thing.

func vMin(a, b int64) int64 { return vIte(a < b, a, b) }
func vMax(a, b int64) int64 { return vIte(a > b, a, b) }
func vAbs(a int64) int64    { return vIte(a < 0, -a, a) }

// vCrossP: (b-a) x (p-a); positive when p is to the left of a->b.
func vCrossP(a, b, p Point64) int64 {
	return (b.X-a.X)*(p.Y-a.Y) - (p.X-a.X)*(b.Y-a.Y)
}

// vWindPath: exact winding number of a closed path around p (p must not lie
// on the path; callers guarantee that with vFar).
func vWindPath(path Path64, p Point64) int64 {
	w := int64(0)
	n := len(path)
	for i := 0; i < n; i++ {
		a, b := path[i], path[(i+1)%n]
		cr := vCrossP(a, b, p)
		up := vAnd(vAnd(a.Y <= p.Y, p.Y < b.Y), cr > 0)
		dn := vAnd(vAnd(b.Y <= p.Y, p.Y < a.Y), cr < 0)
		w += vIte(up, 1, 0) - vIte(dn, 1, 0)
	}
	return w
}

func vWind(paths Paths64, p Point64) int64 {
	w := int64(0)
	for _, path := range paths {
		w += vWindPath(path, p)
	}
	return w
}

// vFarEdge: a sufficient condition for "p is more than m units from segment
// ab": p lies outside the segment's bounding box grown by m, or (for an edge
// that is not axis-parallel) the distance to the supporting line, bounded below
// by |cross| / L1-length, exceeds m.
func vFarEdge(a, b, p Point64, m int64) bool {
	minx, maxx := vMin(a.X, b.X), vMax(a.X, b.X)
	miny, maxy := vMin(a.Y, b.Y), vMax(a.Y, b.Y)
	out := vOr(vOr(p.X < minx-m, p.X > maxx+m), vOr(p.Y < miny-m, p.Y > maxy+m))
	axis := vOr(a.X == b.X, a.Y == b.Y)
	l1 := vAbs(b.X-a.X) + vAbs(b.Y-a.Y)
	line := vAnd(!axis, vAbs(vCrossP(a, b, p)) > m*l1)
	return vOr(out, line)
}

func vFarPath(path Path64, p Point64, m int64) bool {
	far := true
	n := len(path)
	for i := 0; i < n; i++ {
		far = vAnd(far, vFarEdge(path[i], path[(i+1)%n], p, m))
	}
	return far
}

func vFar(paths Paths64, p Point64, m int64) bool {
	far := true
	for _, path := range paths {
		far = vAnd(far, vFarPath(path, p, m))
	}
	return far
}

// vFill applies a fill rule to an exact winding number.
func vFill(fr FillRule, w int64) bool {
	switch fr {
	case EvenOdd:
		return w%2 != 0
	case NonZero:
		return w != 0
	case Positive:
		return w > 0
	default:
		return w < 0
	}
}

// vOp is the boolean combination for a clip type.
func vOp(ct ClipType, s, c bool) bool {
	switch ct {
	case Intersection:
		return vAnd(s, c)
	case Union:
		return vOr(s, c)
	case Difference:
		return vAnd(s, !c)
	default: // Xor
		return s != c
	}
}

// vRect: an axis-aligned rectangle with symbolic sides in [-bound, bound],
// x0 < x1, y0 < y1, either orientation.
func vRect(name string, bound int64) Path64 {
	x0, x1 := vInt(name+"x0", -bound, bound), vInt(name+"x1", -bound, bound)
	y0, y1 := vInt(name+"y0", -bound, bound), vInt(name+"y1", -bound, bound)
	vAssume(x0 < x1)
	vAssume(y0 < y1)
	if vBool(name + "rev") {
		return Path64{{x0, y1}, {x1, y1}, {x1, y0}, {x0, y0}}
	}
	return Path64{{x0, y0}, {x1, y0}, {x1, y1}, {x0, y1}}
}

// vObservePaths records a path set for the per-path translation validation
// (symbolic outputs under the sample model versus the native run).
func vObservePaths(id string, ps Paths64) {
	vObserve(id+".n", int64(len(ps)))
	for _, p := range ps {
		vObserve(id+".len", int64(len(p)))
		for _, pt := range p {
			vObserve(id+".x", pt.X)
			vObserve(id+".y", pt.Y)
		}
	}
}
