//go:build verif && verifsym

package go_clipper2

// Declarations of the harness intrinsics for the symbolic executor, which
// intercepts every call to them; the bodies are never executed.

func vInt(name string, lo, hi int64) int64           { panic("intrinsic") }
func vBool(name string) bool                         { panic("intrinsic") }
func vReal(name string, lo, hi float64) float64      { panic("intrinsic") }
func vFloatInt(name string, lo, hi int64) float64    { panic("intrinsic") }
func vAssume(c bool)                                 { panic("intrinsic") }
func vAssert(id string, c bool)                      { panic("intrinsic") }
func vCover(id string)                               { panic("intrinsic") }
func vObserve(id string, v int64)                    { panic("intrinsic") }
func vObserveB(id string, v bool)                    { panic("intrinsic") }
func vAnd(a, b bool) bool                            { panic("intrinsic") }
func vOr(a, b bool) bool                             { panic("intrinsic") }
func vImplies(a, b bool) bool                        { panic("intrinsic") }
func vIte(c bool, a, b int64) int64                  { panic("intrinsic") }
func vIteB(c bool, a, b bool) bool                   { panic("intrinsic") }
func vSymbolic() bool                                { panic("intrinsic") }
func vFreeze(x any, tag string)                      { panic("intrinsic") }
func vCatch(f func()) (bool, string)                 { panic("intrinsic") }
func vConcretize(v int64) int64                      { panic("intrinsic") }
func vUF3(name string, a, b, c int64) float64        { panic("intrinsic") }
func vKnown(key string, c bool)                      { panic("intrinsic") }
func vWideEq(hi, lo, t2, t1, t0 uint64) bool          { panic("intrinsic") }
func vMul128Check(a, b, hi, lo uint64) bool            { panic("intrinsic") }
