//go:build verif

package go_clipper2

import "math"

// vRectD: an axis-aligned rectangle with symbolic real sides (a real need not
// be a float64: a superset, so "holds for all" is sound; violations replay).
func vRectD(name string, lo, hi float64) PathD {
	x0, x1 := vReal(name+"x0", lo, hi), vReal(name+"x1", lo, hi)
	y0, y1 := vReal(name+"y0", lo, hi), vReal(name+"y1", lo, hi)
	vAssume(x0+1 < x1)
	vAssume(y0+1 < y1)
	return PathD{{x0, y0}, {x1, y0}, {x1, y1}, {x0, y1}}
}

func vSamePathsD(id string, a, b PathsD) {
	vAssert(id+".count", len(a) == len(b))
	if len(a) != len(b) {
		return
	}
	for i := range a {
		vAssert(id+".len", len(a[i]) == len(b[i]))
		if len(a[i]) == len(b[i]) {
			for k := range a[i] {
				vAssert(id+".vertex", vAnd(a[i][k].X == b[i][k].X, a[i][k].Y == b[i][k].Y))
			}
		}
	}
}

func vScale(p int64) float64 { return math.Pow(10, float64(p)) }

// H_C07_bool: BooleanOpPathsD at precision p equals BooleanOpPaths64 on the
// quantised input, divided by 10^p again.
func H_C07_bool(ct, fr, p int64) {
	subj := PathsD{vRectD("s", -1000, 1000)}
	clip := PathsD{vRectD("c", -1000, 1000)}
	scale := vScale(p)
	// Known finding C07.precision-zero: NewClipperD treats precision 0 as "use
	// the default 2", so 10^0 cannot be selected through the engine-based entry points.
	vKnown("C07.precision-zero", p == 0)
	got := BooleanOpPathsD(ClipType(ct), subj, clip, FillRule(fr), int(p))
	ref64 := BooleanOpPaths64(ClipType(ct), ScalePathsDToPaths64(subj, scale), ScalePathsDToPaths64(clip, scale), FillRule(fr))
	want := ScalePaths64ToPathsD(ref64, 1/scale)
	vCover("C07.bool.done")
	vSamePathsD("C07.bool", got, want)
}

// H_C07_rect: RectClipPathsD / RectClipLinesPathsD versus the 64-bit clippers
// on quantised input; the rectangle is quantised like path coordinates.
func H_C07_rect(lines, p int64) {
	scale := vScale(p)
	l, r := vReal("rl", -1000, 1000), vReal("rr", -1000, 1000)
	t, b := vReal("rt", -1000, 1000), vReal("rb", -1000, 1000)
	vAssume(l+1 < r)
	vAssume(t+1 < b)
	rect := NewRectD(l, t, r, b)
	path := PathsD{vRectD("p", -1000, 1000)}
	q := ScalePathDToPath64(PathD{{l, t}, {r, b}}, scale) // nearest, like path coordinates
	rect64 := NewRect64(q[0].X, q[0].Y, q[1].X, q[1].Y)
	// Known finding C07.rect-trunc: ScaleRectD truncates toward zero where
	// path coordinates are rounded to nearest (same as upstream); it matters
	// exactly when the two quantisations of the rectangle differ.
	lib := ScaleRectD(rect, scale)
	vKnown("C07.rect-trunc", vOr(vOr(lib.left != rect64.left, lib.right != rect64.right), vOr(lib.top != rect64.top, lib.bottom != rect64.bottom)))
	var got, want PathsD
	if lines != 0 {
		got = RectClipLinesPathsD(rect, path, int(p))
		want = ScalePaths64ToPathsD(RectClipLinesPaths64(rect64, ScalePathsDToPaths64(path, scale)), 1/scale)
	} else {
		got = RectClipPathsD(rect, path, int(p))
		want = ScalePaths64ToPathsD(RectClipPaths64(rect64, ScalePathsDToPaths64(path, scale)), 1/scale)
	}
	vCover("C07.rect.done")
	vSamePathsD("C07.rect", got, want)
}

// H_C07_mink / trim: Minkowski and TrimCollinearD plumbing.
func H_C07_mink(diff, p int64) {
	scale := vScale(p)
	pattern := vRectD("a", -100, 100)
	path := vRectD("b", -100, 100)
	var got PathsD
	var ref Paths64
	if diff != 0 {
		got = MinkowskiDiffD(pattern, path, true, int(p))
		ref = MinkowskiDiff64(ScalePathDToPath64(pattern, scale), ScalePathDToPath64(path, scale), true)
	} else {
		got = MinkowskiSumD(pattern, path, true, int(p))
		ref = MinkowskiSum64(ScalePathDToPath64(pattern, scale), ScalePathDToPath64(path, scale), true)
	}
	vCover("C07.mink.done")
	vSamePathsD("C07.mink", got, ScalePaths64ToPathsD(ref, 1/scale))
}

func H_C07_trim(p int64) {
	scale := vScale(p)
	path := PathD{{vReal("x0", -100, 100), vReal("y0", -100, 100)}, {vReal("x1", -100, 100), vReal("y1", -100, 100)},
		{vReal("x2", -100, 100), vReal("y2", -100, 100)}, {vReal("x3", -100, 100), vReal("y3", -100, 100)}}
	got := TrimCollinearD(path, int(p), false)
	want := ScalePath64ToPathD(TrimCollinear64(ScalePathDToPath64(path, scale), false), 1/scale)
	vCover("C07.trim.done")
	vSamePathsD("C07.trim", PathsD{got}, PathsD{want})
}

// H_C07_precision: a precision outside [-8, 8] is rejected with the documented
// panic and nothing else; inside the range no entry point panics. which
// selects the entry point.
func H_C07_precision(which, p int64) {
	sq := PathsD{{{0, 0}, {10, 0}, {10, 10}, {0, 10}}}
	sq2 := PathsD{{{5, 5}, {15, 5}, {15, 15}, {5, 15}}}
	panicked, msg := vCatch(func() {
		switch which {
		case 0:
			_ = BooleanOpPathsD(Union, sq, sq2, NonZero, int(p))
		case 1:
			_ = BooleanOpPolyTreeD(Union, sq, sq2, NonZero, int(p))
		case 2:
			_ = InflatePathsD(sq, 1, Miter, Polygon, WithPrecision(int(p)))
		case 3:
			_ = RectClipPathsD(NewRectD(1, 1, 8, 8), sq2, int(p))
		case 4:
			_ = RectClipLinesPathsD(NewRectD(1, 1, 8, 8), sq2, int(p))
		case 5:
			_ = MinkowskiSumD(sq[0], sq2[0], true, int(p))
		case 6:
			_ = MinkowskiDiffD(sq[0], sq2[0], true, int(p))
		case 7:
			_ = TrimCollinearD(sq[0], int(p), false)
		case 8:
			_ = NewClipperD(int(p))
		}
	})
	vCover("C07.precision.done")
	if p < -8 || p > 8 {
		vAssert("C07.precision.rejected", panicked)
		vAssert("C07.precision.documented-panic", msg == "error: precision is out of range")
	} else {
		vAssert("C07.precision.accepted", !panicked)
	}
}

// H_C07_p0: precision 0 must mean 10^0 (concrete inputs with fractional
// coordinates make the difference visible on one path).
func H_C07_p0() {
	vKnown("C07.precision-zero", true)
	subj := PathsD{{{0.4, 0.4}, {10.4, 0.4}, {10.4, 10.4}, {0.4, 10.4}}}
	clip := PathsD{{{5.3, 5.3}, {15.3, 5.3}, {15.3, 15.3}, {5.3, 15.3}}}
	got := BooleanOpPathsD(Intersection, subj, clip, NonZero, 0)
	ref64 := BooleanOpPaths64(Intersection, ScalePathsDToPaths64(subj, 1), ScalePathsDToPaths64(clip, 1), NonZero)
	vSamePathsD("C07.p0", got, ScalePaths64ToPathsD(ref64, 1))
}

// H_C07_inflate: InflatePathsD versus InflatePaths64 on the quantised input
// with delta and arc tolerance multiplied by 10^p. The offset code takes sqrt
// and trigonometric functions of its input, which the solver cannot treat
// symbolically, so this job runs on CONCRETE input: the executor acts as a
// plain interpreter of the real code (a differential test through the same
// machinery, not a for-all claim).
func H_C07_inflate(join, p int64) {
	scale := vScale(p)
	sq := PathsD{{{0, 0}, {10, 0}, {10, 10}, {0, 10}}}
	delta, arcTol := 5.0, 0.5
	got := InflatePathsD(sq, delta, JoinType(join), Polygon, WithPrecision(int(p)), WithArcTolerance(arcTol))
	ref := InflatePaths64(ScalePathsDToPaths64(sq, scale), delta*scale, JoinType(join), Polygon, WithArcTolerance(arcTol*scale))
	vCover("C07.inflate.done")
	vSamePathsD("C07.inflate", got, ScalePaths64ToPathsD(ref, 1/scale))
}

// H_C07_rect_trunc: the ScaleRectD truncation finding on one concrete input
// (rectangle bounds whose scaled values have a fractional part of 0.6).
func H_C07_rect_trunc() {
	vKnown("C07.rect-trunc", true)
	scale := vScale(2)
	rect := NewRectD(1.006, 1.006, 8.006, 8.006)
	path := PathsD{{{0, 0}, {10, 0}, {10, 10}, {0, 10}}}
	q := ScalePathDToPath64(PathD{{1.006, 1.006}, {8.006, 8.006}}, scale)
	rect64 := NewRect64(q[0].X, q[0].Y, q[1].X, q[1].Y)
	got := RectClipPathsD(rect, path, 2)
	want := ScalePaths64ToPathsD(RectClipPaths64(rect64, ScalePathsDToPaths64(path, scale)), 1/scale)
	vSamePathsD("C07.rect", got, want)
}
