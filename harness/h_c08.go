//go:build verif

package go_clipper2

// Expected Minkowski region for an axis-aligned rectangle pattern and an
// axis-parallel path: the union over the path's segments of
// segment (+) boundary(pattern), which for a horizontal segment [x0,x1] x {y}
// and pattern [a0,a1] x [b0,b1] is the rectangle [x0+a0, x1+a1] x [y+b0, y+b1]
// minus the open hole (x1+a0, x0+a1) x (y+b0, y+b1) that exists when the
// segment is shorter than the pattern is wide (symmetrically for vertical
// segments). For the difference the pattern is negated.
type vBox struct{ x0, x1, y0, y1 int64 }

func (b vBox) path() Path64 {
	return Path64{{b.x0, b.y0}, {b.x1, b.y0}, {b.x1, b.y1}, {b.x0, b.y1}}
}
func (b vBox) strictlyIn(p Point64) bool {
	return vAnd(vAnd(p.X > b.x0, p.X < b.x1), vAnd(p.Y > b.y0, p.Y < b.y1))
}
func (b vBox) nonEmpty() bool { return vAnd(b.x0 < b.x1, b.y0 < b.y1) }

func vMinkSegment(a, b Point64, pa0, pa1, pb0, pb1 int64) (outer, hole vBox) {
	sx0, sx1 := vMin(a.X, b.X), vMax(a.X, b.X)
	sy0, sy1 := vMin(a.Y, b.Y), vMax(a.Y, b.Y)
	outer = vBox{sx0 + pa0, sx1 + pa1, sy0 + pb0, sy1 + pb1}
	hole = vBox{sx1 + pa0, sx0 + pa1, sy1 + pb0, sy0 + pb1}
	return
}

// H_C08_mink: pattern = symbolic rectangle; path = symbolic axis-parallel
// polyline (shape 0..4, open) or symbolic rectangle (shape 5, closed).
// diff != 0 selects MinkowskiDiff64.
func H_C08_mink(shape, diff int64) {
	const B = int64(1) << 27 // sums stay within 2^29
	pattern := vRect("a", B)
	var path Path64
	closed := false
	if shape == 5 {
		path = vRect("p", B)
		closed = true
	} else {
		path = vPolyline("p", shape, B)
	}
	vFreeze(pattern, "pattern")
	vFreeze(path, "path")
	var res Paths64
	if diff != 0 {
		res = MinkowskiDiff64(pattern, path, closed)
	} else {
		res = MinkowskiSum64(pattern, path, closed)
	}
	vObservePaths("res", res)
	vCover("C08.done")
	gp := vGridOf(Paths64{pattern})
	pa0, pa1, pb0, pb1 := gp.X[0], gp.X[1], gp.Y[0], gp.Y[1]
	if diff != 0 {
		pa0, pa1, pb0, pb1 = -pa1, -pa0, -pb1, -pb0
	}
	p := vPt("probe", 4*B)
	in := false
	far := true
	n := len(path)
	segs := n - 1
	if closed {
		segs = n
	}
	for k := 0; k < segs; k++ {
		outer, hole := vMinkSegment(path[k], path[(k+1)%n], pa0, pa1, pb0, pb1)
		in = vOr(in, vAnd(outer.strictlyIn(p), !vAnd(hole.nonEmpty(), vAnd(vAnd(p.X >= hole.x0, p.X <= hole.x1), vAnd(p.Y >= hole.y0, p.Y <= hole.y1)))))
		far = vAnd(far, vFarPath(outer.path(), p, 2))
		far = vAnd(far, vOr(!hole.nonEmpty(), vFarPath(hole.path(), p, 2)))
	}
	w := vWind(res, p)
	vAssert("C08.region", vImplies(far, (w != 0) == in))
	vAssert("C08.canonical", vImplies(vFar(res, p, 2), vOr(w == 0, w == 1)))
	for _, r := range res {
		vAssert("C08.len>=3", len(r) >= 3)
	}
}

// H_C08_comm: for closed paths sum(A,B) and sum(B,A) describe the same region.
func H_C08_comm() {
	const B = int64(1) << 27
	a, b := vRect("a", B), vRect("b", B)
	r1 := MinkowskiSum64(a, b, true)
	r2 := MinkowskiSum64(b, a, true)
	g := vGridOf(r1, r2)
	vCellsAgree("C08.commutative", g, vCellInside("C08.r1", g, r1, NonZero), vCellInside("C08.r2", g, r2, NonZero), 2, r1, r2)
	vCover("C08.comm.done")
}
