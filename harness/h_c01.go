//go:build verif

package go_clipper2

// H_C01_R11: one symbolic subject rectangle, one symbolic clip rectangle,
// concrete clip type and fill rule; region at a symbolic probe.
func H_C01_R11(ct, fr int64) {
	subj := Paths64{vRect("s", vB29)}
	clip := Paths64{vRect("c", vB29)}
	sol := BooleanOpPaths64(ClipType(ct), subj, clip, FillRule(fr))
	vObservePaths("sol", sol)
	p := vPt("p", vB29+8)
	far := vAnd(vFar(subj, p, 2), vFar(clip, p, 2))
	inS := vFill(FillRule(fr), vWind(subj, p))
	inC := vFill(FillRule(fr), vWind(clip, p))
	want := vOp(ClipType(ct), inS, inC)
	got := vWind(sol, p) != 0
	vCover("C01.R11.done")
	vAssert("C01.region", vImplies(far, got == want))
}
