//go:build verif

package go_clipper2

// vFillC / vOpC: concrete versions (plain Go) of the fill rule and clip type.
func vFillC(fr FillRule, w int) bool {
	switch fr {
	case EvenOdd:
		return w%2 != 0
	case NonZero:
		return w != 0
	case Positive:
		return w > 0
	default:
		return w < 0
	}
}

func vOpC(ct ClipType, s, c bool) bool {
	switch ct {
	case Intersection:
		return s && c
	case Union:
		return s || c
	case Difference:
		return s && !c
	default:
		return s != c
	}
}

// vCheckRegionRect asserts C01's region statement for rectilinear inputs by
// the cell oracle.
func vCheckRegionRect(id string, ct ClipType, fr FillRule, subj, clip, sol Paths64, bound int64) {
	g := vGridOf(subj, clip, sol)
	for i := 0; i+1 < len(g.X); i++ {
		for j := 0; j+1 < len(g.Y); j++ {
			ws, ok1 := g.vCellWind(subj, i, j)
			wc, ok2 := g.vCellWind(clip, i, j)
			wo, ok3 := g.vCellWind(sol, i, j)
			if !ok1 || !ok2 {
				vAssume(false) // inputs of this family are rectilinear by construction
			}
			vAssert(id+".rectilinear-output", ok3)
			want := vOpC(ct, vFillC(fr, ws), vFillC(fr, wc))
			got := wo != 0
			if got != want {
				vCover(id + ".mismatch-cell")
				// a violation iff the cell holds a probe far from every input edge
				vAssert(id, !g.vCellFarProbe(i, j, 2, bound+8, subj, clip))
			}
		}
	}
}

// H_C01_R11: one symbolic subject rectangle, one symbolic clip rectangle,
// concrete clip type and fill rule.
func H_C01_R11(ct, fr int64) {
	subj := Paths64{vRect("s", vB29)}
	clip := Paths64{vRect("c", vB29)}
	sol := BooleanOpPaths64(ClipType(ct), subj, clip, FillRule(fr))
	vObservePaths("sol", sol)
	vCheckRegionRect("C01.region", ClipType(ct), FillRule(fr), subj, clip, sol, vB29)
	vCover("C01.R11.done")
}

// H_C01_R11_probe: the same family decided with the general winding-number
// oracle at a fully symbolic probe (slow; kept as a cross-check of the cell
// oracle).
func H_C01_R11_probe(ct, fr int64) {
	subj := Paths64{vRect("s", vB29)}
	clip := Paths64{vRect("c", vB29)}
	sol := BooleanOpPaths64(ClipType(ct), subj, clip, FillRule(fr))
	vObservePaths("sol", sol)
	p := vPt("p", vB29+8)
	far := vAnd(vFar(subj, p, 2), vFar(clip, p, 2))
	inS := vFill(FillRule(fr), vWind(subj, p))
	inC := vFill(FillRule(fr), vWind(clip, p))
	want := vOp(ClipType(ct), inS, inC)
	got := vWind(sol, p) != 0
	vAssert("C01.region", vImplies(far, got == want))
}

// H_C01_R: C01 on rectilinear family fam (see vFamily).
func H_C01_R(fam, ct, fr int64) {
	subj, clip := vFamily(fam)
	sol := BooleanOpPaths64(ClipType(ct), subj, clip, FillRule(fr))
	vObservePaths("sol", sol)
	cl := clip
	if cl == nil {
		cl = Paths64{}
	}
	vCheckRegionRect("C01.region", ClipType(ct), FillRule(fr), subj, cl, sol, vB29)
	vCover("C01.R.done")
}
