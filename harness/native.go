//go:build verif && !verifsym

package go_clipper2

import (
	"fmt"
	"math/big"
	"strings"
)

// Native implementations of the harness intrinsics, used when a witness found
// by the solver is replayed against the real package.

type vCaseState struct {
	Witness  []string
	pos      int
	Failed   []string
	Covers   []string
	Observes []string
	Short    bool // witness exhausted
	BadAssume bool
}

var vCur *vCaseState

type vAssumeFailed struct{}

func vNext() (string, bool) {
	if vCur.pos >= len(vCur.Witness) {
		vCur.Short = true
		return "", false
	}
	s := vCur.Witness[vCur.pos]
	vCur.pos++
	return s, true
}

func vParseRat(s string) *big.Rat {
	s = strings.TrimSpace(s)
	neg := false
	// forms: 5, (- 5), 5.0, (/ 1.0 3.0), (- (/ 1.0 3.0))
	if strings.HasPrefix(s, "(-") {
		neg = true
		s = strings.TrimSpace(s[2 : len(s)-1])
	}
	var r *big.Rat
	if strings.HasPrefix(s, "(/") {
		parts := strings.Fields(s[2 : len(s)-1])
		a, _ := new(big.Rat).SetString(parts[0])
		b, _ := new(big.Rat).SetString(parts[1])
		r = new(big.Rat).Quo(a, b)
	} else {
		r, _ = new(big.Rat).SetString(s)
	}
	if r == nil {
		r = new(big.Rat)
	}
	if neg {
		r.Neg(r)
	}
	return r
}

func vInt(name string, lo, hi int64) int64 {
	s, ok := vNext()
	if !ok {
		return lo
	}
	r := vParseRat(s)
	v := r.Num().Int64()
	if v < lo || v > hi {
		vCur.BadAssume = true
	}
	return v
}

func vBool(name string) bool {
	s, ok := vNext()
	return ok && strings.TrimSpace(s) == "true"
}

func vReal(name string, lo, hi float64) float64 {
	s, ok := vNext()
	if !ok {
		return lo
	}
	f, _ := vParseRat(s).Float64()
	return f
}

func vFloatInt(name string, lo, hi int64) float64 { return float64(vInt(name, lo, hi)) }

func vAssume(c bool) {
	if !c {
		vCur.BadAssume = true
		panic(vAssumeFailed{})
	}
}

func vAssert(id string, c bool) {
	if !c {
		vCur.Failed = append(vCur.Failed, id)
	}
}

func vCover(id string) { vCur.Covers = append(vCur.Covers, id) }

func vObserve(id string, v int64) {
	vCur.Observes = append(vCur.Observes, fmt.Sprintf("%s=%d", id, v))
}
func vObserveB(id string, v bool) {
	vCur.Observes = append(vCur.Observes, fmt.Sprintf("%s=%v", id, v))
}
func vAnd(a, b bool) bool     { return a && b }
func vOr(a, b bool) bool      { return a || b }
func vImplies(a, b bool) bool { return !a || b }
func vIte(c bool, a, b int64) int64 {
	if c {
		return a
	}
	return b
}
func vIteB(c bool, a, b bool) bool {
	if c {
		return a
	}
	return b
}
func vSymbolic() bool            { return false }
func vFreeze(x any, tag string)  {}
func vConcretize(v int64) int64  { return v }
func vCatch(f func()) (panicked bool, msg string) {
	defer func() {
		if r := recover(); r != nil {
			if _, ok := r.(vAssumeFailed); ok {
				panic(r)
			}
			panicked = true
			if e, ok := r.(error); ok {
				msg = "error: " + e.Error()
			} else {
				msg = fmt.Sprint(r)
			}
		}
	}()
	f()
	return false, ""
}
func vUF3(name string, a, b, c int64) float64 { return 0 }

// vKnown is a no-op natively: replays run the real code on the witness as is.
func vKnown(key string, c bool) {}

func vWideEq(hi, lo, t2, t1, t0 uint64) bool {
	u := func(x uint64) *big.Int { return new(big.Int).SetUint64(x) }
	lhs := new(big.Int).Add(new(big.Int).Lsh(u(hi), 64), u(lo))
	rhs := new(big.Int).Add(new(big.Int).Add(new(big.Int).Lsh(u(t2), 64), new(big.Int).Lsh(u(t1), 32)), u(t0))
	return lhs.Cmp(rhs) == 0
}

func vMul128Check(a, b, hi, lo uint64) bool {
	u := func(x uint64) *big.Int { return new(big.Int).SetUint64(x) }
	return new(big.Int).Mul(u(a), u(b)).Cmp(new(big.Int).Add(new(big.Int).Lsh(u(hi), 64), u(lo))) == 0
}
