//go:build verif

package go_clipper2

// vShoelace: twice the signed area, exact in int64 for |coords| <= 2^29 and n <= 8.
func vShoelace(p Path64) int64 {
	s := int64(0)
	n := len(p)
	for i := 0; i < n; i++ {
		a, b := p[i], p[(i+1)%n]
		s += a.X*b.Y - b.X*a.Y
	}
	return s
}

func vPtEq(a, b Point64) bool { return vAnd(a.X == b.X, a.Y == b.Y) }

// vEmbedsFrom: res[k:] equals path[idx...] for some increasing indices >= from
// (plain sub-sequence), as one boolean term.
func vEmbedsFrom(res, path Path64, k, from int) bool {
	if k == len(res) {
		return true
	}
	ok := false
	for j := from; j < len(path) && len(path)-j >= len(res)-k; j++ {
		ok = vOr(ok, vAnd(vPtEq(res[k], path[j]), vEmbedsFrom(res, path, k+1, j+1)))
	}
	return ok
}

// vCyclicSubseq: res is a sub-sequence of some rotation of path.
func vCyclicSubseq(res, path Path64) bool {
	n := len(path)
	ok := false
	for r := 0; r < n; r++ {
		rot := make(Path64, 0, n)
		rot = append(rot, path[r:]...)
		rot = append(rot, path[:r]...)
		ok = vOr(ok, vEmbedsFrom(res, rot, 0, 0))
	}
	return ok
}

func vPathN(name string, n int, bound int64) Path64 {
	p := make(Path64, n)
	for i := range p {
		p[i] = Point64{X: vInt(name+"x", -bound, bound), Y: vInt(name+"y", -bound, bound)}
	}
	return p
}

func vNoCollinearTriple(id string, p Path64, closed bool) {
	n := len(p)
	if n < 3 {
		return
	}
	for i := 0; i < n; i++ {
		if !closed && (i == 0 || i == n-1) {
			continue
		}
		a, b, c := p[(i+n-1)%n], p[i], p[(i+1)%n]
		vAssert(id, vCross(a, b, c) != 0)
	}
}

// H_C15_closed: TrimCollinear64 on a closed path of n fully symbolic points.
func H_C15_closed(n int64) {
	path := vPathN("p", int(n), vB29)
	in := append(Path64{}, path...)
	// Known finding C15.spike: the single pass does not re-examine a retained
	// vertex whose successor is removed later, which matters only when the
	// input has a 180-degree spike or a repeated point.
	// (No effect found for n <= 5, so the predicate is only assumed from n = 6.)
	if n >= 6 {
		vKnown("C15.spike", vHasSpike(in))
	}
	res := TrimCollinear64(path, false)
	vObservePaths("res", Paths64{res})
	vCover("C15.closed.done")
	vAssert("C15.len", len(res) == 0 || len(res) >= 3)
	vAssert("C15.subseq", vCyclicSubseq(res, in))
	vAssert("C15.area", vShoelace(res) == vShoelace(in))
	vNoCollinearTriple("C15.no-collinear-left", res, true)
	// input untouched
	for i := range in {
		vAssert("C15.input-unchanged", vPtEq(in[i], path[i]))
	}
	// idempotence
	res2 := TrimCollinear64(res, false)
	vAssert("C15.idempotent.len", len(res2) == len(res))
	if len(res2) == len(res) {
		for i := range res {
			vAssert("C15.idempotent", vPtEq(res[i], res2[i]))
		}
	}
}

// H_C15_open: open path; both end points are kept.
func H_C15_open(n int64) {
	path := vPathN("p", int(n), vB29)
	in := append(Path64{}, path...)
	res := TrimCollinear64(path, true)
	vObservePaths("res", Paths64{res})
	vCover("C15.open.done")
	if len(in) >= 2 {
		// documented degenerate: fewer than 3 points and equal first two -> empty
		if len(res) > 0 {
			vAssert("C15.open.first", vPtEq(res[0], in[0]))
			vAssert("C15.open.last", vPtEq(res[len(res)-1], in[len(in)-1]))
		}
	}
	vAssert("C15.open.subseq", vEmbedsFrom(res, in, 0, 0))
	for i := range in {
		vAssert("C15.open.input-unchanged", vPtEq(in[i], path[i]))
	}
	// (no-collinear-triple and idempotence are stated for closed paths only)
}

// vDot: (b-a).(c-b), exact.
func vDot(a, b, c Point64) int64 {
	return (b.X-a.X)*(c.X-b.X) + (b.Y-a.Y)*(c.Y-b.Y)
}

// vHasSpike: some vertex is exactly collinear with its cyclic neighbours and
// the path does not pass straight through it (reversal or zero-length edge).
func vHasSpike(p Path64) bool {
	n := len(p)
	has := false
	for i := 0; i < n; i++ {
		a, b, c := p[(i+n-1)%n], p[i], p[(i+1)%n]
		has = vOr(has, vAnd(vCross(a, b, c) == 0, vDot(a, b, c) <= 0))
	}
	return has
}

// H_C15_spike6: the smallest family that exhibits known finding C15.spike: a
// closed 6-gon whose third vertex repeats the first (A, B, A, C, D, E).
func H_C15_spike6() {
	a, b := vPt("a", vB29), vPt("b", vB29)
	c, d, e := vPt("c", vB29), vPt("d", vB29), vPt("e", vB29)
	path := Path64{a, b, a, c, d, e}
	vKnown("C15.spike", true)
	res := TrimCollinear64(path, false)
	vNoCollinearTriple("C15.no-collinear-left", res, true)
}
