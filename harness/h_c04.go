//go:build verif

package go_clipper2

// vNested3: three rectangles, each strictly inside the previous one, symbolic
// sides and orientations (nesting depth 3: boundary / hole / island under
// EvenOdd; depends on orientations under the other fill rules).
func vNested3(bound int64) Paths64 {
	a := vRect("s", bound)
	b := vRect("t", bound)
	c := vRect("u", bound)
	ga, gb, gc := vGridOf(Paths64{a}), vGridOf(Paths64{b}), vGridOf(Paths64{c})
	vAssume(vAnd(vAnd(ga.X[0] < gb.X[0], gb.X[1] < ga.X[1]), vAnd(ga.Y[0] < gb.Y[0], gb.Y[1] < ga.Y[1])))
	vAssume(vAnd(vAnd(gb.X[0] < gc.X[0], gc.X[1] < gb.X[1]), vAnd(gb.Y[0] < gc.Y[0], gc.Y[1] < gb.Y[1])))
	return Paths64{a, b, c}
}

// vCross3: a big rectangle containing a wide bar and a tall bar that cross
// each other (plus shape); under EvenOdd the bars' overlap is an island that
// touches the four hole arms at its corners.
func vCross3(bound int64) Paths64 {
	a := vRect("s", bound)
	b := vRect("t", bound)
	c := vRect("u", bound)
	ga, gb, gc := vGridOf(Paths64{a}), vGridOf(Paths64{b}), vGridOf(Paths64{c})
	vAssume(vAnd(vAnd(ga.X[0] < gb.X[0], gb.X[1] < ga.X[1]), vAnd(ga.Y[0] < gc.Y[0], gc.Y[1] < ga.Y[1])))
	vAssume(vAnd(vAnd(gb.X[0] < gc.X[0], gc.X[1] < gb.X[1]), vAnd(gc.Y[0] < gb.Y[0], gb.Y[1] < gc.Y[1])))
	return Paths64{a, b, c}
}

type vNode struct {
	poly   Path64
	parent int // index into the node list, -1 for top level
	isHole bool
	level  int
}

func vFlattenTree(n *PolyPathBase, parent int, out *[]vNode) {
	for _, ch := range n.childs {
		*out = append(*out, vNode{poly: ch.polygon, parent: parent, isHole: ch.IsHole(), level: ch.Level()})
		idx := len(*out) - 1
		vFlattenTree(ch, idx, out)
	}
}

func vSamePath(a, b Path64) bool {
	if len(a) != len(b) {
		return false
	}
	eq := true
	for i := range a {
		eq = vAnd(eq, vPtEq(a[i], b[i]))
	}
	return eq
}

// vMatchAll: every path of as equals a distinct path of bs (bijection when the
// counts are equal), as one boolean term.
func vMatchAll(as, bs Paths64, used []bool, k int) bool {
	if k == len(as) {
		return true
	}
	ok := false
	for j := range bs {
		if used[j] || len(bs[j]) != len(as[k]) {
			continue
		}
		used[j] = true
		ok = vOr(ok, vAnd(vSamePath(as[k], bs[j]), vMatchAll(as, bs, used, k+1)))
		used[j] = false
	}
	return ok
}

// H_C04_R: PolyTree result versus the flat result and the nesting claims.
// fam as in vFamily, 6 = three strictly nested rectangles.
func H_C04_R(fam, ct, fr int64) {
	var subj, clip Paths64
	if fam == 6 {
		subj = vNested3(vB29)
	} else if fam == 7 {
		subj = vCross3(vB29)
	} else {
		subj, clip = vFamily(fam)
	}
	tree := BooleanOpPolyTree64(ClipType(ct), subj, clip, FillRule(fr))
	flat := BooleanOpPaths64(ClipType(ct), subj, clip, FillRule(fr))
	var nodes []vNode
	vFlattenTree(tree.PolyPathBase, -1, &nodes)
	polys := make(Paths64, 0, len(nodes))
	for _, n := range nodes {
		polys = append(polys, n.poly)
	}
	vObservePaths("tree", polys)
	vCover("C04.done")
	// (i) the same polygons, each exactly once
	vAssert("C04.same-count", len(polys) == len(flat))
	if len(polys) == len(flat) {
		vAssert("C04.same-polygons", vMatchAll(polys, flat, make([]bool, len(flat)), 0))
	}
	g := vGridOf(polys)
	wind := func(k, i, j int) int {
		w, ok := g.vCellWind(Paths64{polys[k]}, i, j)
		vAssert("C04.rectilinear", ok)
		return w
	}
	for k, n := range nodes {
		// orientation: sign of the winding number on the polygon's own cells
		sign := 0
		for i := 0; i+1 < len(g.X); i++ {
			for j := 0; j+1 < len(g.Y); j++ {
				if w := wind(k, i, j); w != 0 {
					sign = w
				}
			}
		}
		// (iv) a hole's parent is the innermost filled boundary containing it: any
		// other non-hole polygon that contains the whole hole contains the parent too
		if n.isHole && n.parent >= 0 {
			vAssert("C04.hole-inside-its-parent", vContainsCells(g, polys, n.parent, k))
			for k2, n2 := range nodes {
				if k2 == k || k2 == n.parent || n2.isHole || !vContainsCells(g, polys, k2, k) {
					continue
				}
				vCover("C04.other-container")
				vAssert("C04.parent-is-innermost", vContainsCells(g, polys, k2, n.parent))
			}
		}
		if sign != 0 {
			vCover("C04.node")
			// (iii) IsHole <=> negatively oriented; levels alternate
			vAssert("C04.ishole-iff-negative", n.isHole == (sign < 0))
			vAssert("C04.levels-alternate", n.isHole == (n.level%2 == 0))
		}
		for i := 0; i+1 < len(g.X); i++ {
			for j := 0; j+1 < len(g.Y); j++ {
				if wind(k, i, j) == 0 {
					continue
				}
				// (ii) inside the parent, inside no sibling
				if n.parent >= 0 && wind(n.parent, i, j) == 0 {
					vAssert("C04.inside-parent", !g.vCellFarProbe(i, j, 2, vB29+8, polys))
				}
				for k2, n2 := range nodes {
					if k2 != k && n2.parent == n.parent && wind(k2, i, j) != 0 {
						vAssert("C04.not-inside-sibling", !g.vCellFarProbe(i, j, 2, vB29+8, polys))
					}
				}
			}
		}
	}
}

// vContainsCells: every cell of polygon b is a cell of polygon a.
func vContainsCells(g vGrid, polys Paths64, a, b int) bool {
	for i := 0; i+1 < len(g.X); i++ {
		for j := 0; j+1 < len(g.Y); j++ {
			wb, _ := g.vCellWind(Paths64{polys[b]}, i, j)
			wa, _ := g.vCellWind(Paths64{polys[a]}, i, j)
			if wb != 0 && wa == 0 {
				return false
			}
		}
	}
	return true
}
