//go:build verif

package go_clipper2

const vB29 = int64(1) << 29

func vPt(name string, bound int64) Point64 {
	return Point64{X: vInt(name+"x", -bound, bound), Y: vInt(name+"y", -bound, bound)}
}

// vCross is the exact integer cross product (b-a) x (c-b); exact in int64 for
// coordinates of magnitude <= 2^29 (differences <= 2^30, products <= 2^60).
func vCross(a, b, c Point64) int64 {
	return (b.X-a.X)*(c.Y-b.Y) - (b.Y-a.Y)*(c.X-b.X)
}

// H_C14_collinear: isCollinear(p1,p2,p3) <=> exact cross product is zero.
func H_C14_collinear() {
	a, b, c := vPt("a", vB29), vPt("b", vB29), vPt("c", vB29)
	got := isCollinear(a, b, c)
	want := vCross(a, b, c) == 0
	vCover("C14.collinear.reached")
	vAssert("C14.collinear.iff", got == want)
}

// H_C14_collinear_nf1: the same with the known triSign(1) site excluded by hand
// (used to confirm that nothing else is wrong with the predicate).
func H_C14_collinear_nf1() {
	a, b, c := vPt("a", vB29), vPt("b", vB29), vPt("c", vB29)
	vAssume(b.X-a.X != 1)
	vAssume(c.Y-b.Y != 1)
	vAssume(b.Y-a.Y != 1)
	vAssume(c.X-b.X != 1)
	got := isCollinear(a, b, c)
	want := vCross(a, b, c) == 0
	vAssert("C14.collinear.iff", got == want)
}
