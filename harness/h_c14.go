//go:build verif

package go_clipper2

const vB29 = int64(1) << 29

func vPt(name string, bound int64) Point64 {
	return Point64{X: vInt(name+"x", -bound, bound), Y: vInt(name+"y", -bound, bound)}
}

// vCross is the exact integer cross product (b-a) x (c-b); exact in int64 for
// coordinates of magnitude <= 2^29 (differences <= 2^30, products <= 2^60).
func vCross(a, b, c Point64) int64 {
	return (b.X-a.X)*(c.Y-b.Y) - (b.Y-a.Y)*(c.X-b.X)
}

// H_C14_collinear: isCollinear(p1,p2,p3) <=> exact cross product is zero.
func H_C14_collinear() {
	a, b, c := vPt("a", vB29), vPt("b", vB29), vPt("c", vB29)
	got := isCollinear(a, b, c)
	want := vCross(a, b, c) == 0
	vCover("C14.collinear.reached")
	vAssert("C14.collinear.iff", got == want)
}

// H_C14_collinear_nf1: the same with the known triSign(1) site excluded by hand
// (used to confirm that nothing else is wrong with the predicate).
func H_C14_collinear_nf1() {
	a, b, c := vPt("a", vB29), vPt("b", vB29), vPt("c", vB29)
	vAssume(b.X-a.X != 1)
	vAssume(c.Y-b.Y != 1)
	vAssume(b.Y-a.Y != 1)
	vAssume(c.X-b.X != 1)
	got := isCollinear(a, b, c)
	want := vCross(a, b, c) == 0
	vAssert("C14.collinear.iff", got == want)
}

// H_C14_cross: CrossProduct's sign and zero-ness are those of the exact integer
// cross product.
func H_C14_cross() {
	a, b, c := vPt("a", vB29), vPt("b", vB29), vPt("c", vB29)
	d := CrossProduct(a, b, c)
	exact := vCross(a, b, c)
	vCover("C14.cross.reached")
	vAssert("C14.cross.zero", (d == 0) == (exact == 0))
	vAssert("C14.cross.negative", (d < 0) == (exact < 0))
}

// vOnSeg: p lies on the closed segment ab (exact).
func vOnSeg(a, b, p Point64) bool {
	return vAnd(vCrossP(a, b, p) == 0, vAnd(vAnd(p.X >= vMin(a.X, b.X), p.X <= vMax(a.X, b.X)), vAnd(p.Y >= vMin(a.Y, b.Y), p.Y <= vMax(a.Y, b.Y))))
}

// H_C14_pip: PointInPolygon on a fully symbolic n-gon versus exact integer
// arithmetic (on-boundary test and even-odd crossing parity).
func H_C14_pip(n int64) {
	poly := vPathN("v", int(n), vB29)
	pt := vPt("p", vB29)
	// not contained in one horizontal line
	flat := true
	for i := 1; i < len(poly); i++ {
		flat = vAnd(flat, poly[i].Y == poly[0].Y)
	}
	vAssume(!flat)
	got := PointInPolygon(pt, poly)
	on := false
	cnt := int64(0)
	m := len(poly)
	for i := 0; i < m; i++ {
		a, b := poly[i], poly[(i+1)%m]
		on = vOr(on, vOnSeg(a, b, pt))
		cr := vCrossP(a, b, pt)
		up := vAnd(vAnd(a.Y <= pt.Y, pt.Y < b.Y), cr > 0)
		dn := vAnd(vAnd(b.Y <= pt.Y, pt.Y < a.Y), cr < 0)
		cnt += vIte(vOr(up, dn), 1, 0)
	}
	inside := cnt%2 != 0
	vCover("C14.pip.reached")
	vAssert("C14.pip.on", (got == IsOn) == on)
	vAssert("C14.pip.inside", vImplies(!on, (got == IsInside) == inside))
}

// H_C14_area: Area64 / IsPositive64 / AreaPaths64 versus the exact shoelace sum.
func H_C14_area(n int64) {
	p := vPathN("v", int(n), vB29)
	s := vShoelace(p)
	a := Area64(p)
	vCover("C14.area.reached")
	// equal to half the exact sum up to float64 rounding (a few ulps)
	diff := a*2 - float64(s)
	if diff < 0 {
		diff = -diff
	}
	mag := float64(s)
	if mag < 0 {
		mag = -mag
	}
	vAssert("C14.area.twice-area-is-shoelace", diff <= mag*1e-15)
	vAssert("C14.area.zero-iff", (a == 0) == (s == 0))
	vAssert("C14.area.ispositive", IsPositive64(p) == (s >= 0))
	q := Path64{p[0], p[1], p[2]}
	vAssert("C14.area.paths-sum", AreaPaths64(Paths64{p, q}) == a+Area64(q))
}

// H_C14_bounds: GetBounds64 returns the exact extremes.
func H_C14_bounds(n int64) {
	p := vPathN("v", int(n), vB29)
	r := GetBounds64(p)
	l, t, rr, b := p[0].X, p[0].Y, p[0].X, p[0].Y
	for _, pt := range p[1:] {
		l, rr = vMin(l, pt.X), vMax(rr, pt.X)
		t, b = vMin(t, pt.Y), vMax(b, pt.Y)
	}
	vCover("C14.bounds.reached")
	vAssert("C14.bounds.exact", vAnd(vAnd(r.left == l, r.right == rr), vAnd(r.top == t, r.bottom == b)))
}
