//go:build verif

package go_clipper2

const vB52 = int64(1) << 52

func vShift(ps Paths64, tx, ty int64) Paths64 {
	return vMapPoints(ps, func(p Point64) Point64 { return Point64{p.X + tx, p.Y + ty} })
}

// H_C13_bool: translating every input by the same vector (magnitudes up to
// 2^52) translates the solution. The base input is a rectilinear family with
// sides in [-2^29, 2^29]; (tx, ty) is symbolic in [-(2^52-2^29), 2^52-2^29].
func H_C13_bool(fam, ct, fr int64) {
	subj, clip := vFamily(fam)
	T := vB52 - vB29
	tx, ty := vInt("tx", -T, T), vInt("ty", -T, T)
	base := BooleanOpPaths64(ClipType(ct), subj, clip, FillRule(fr))
	moved := BooleanOpPaths64(ClipType(ct), vShift(subj, tx, ty), vShift(clip, tx, ty), FillRule(fr))
	vCover("C13.bool.done")
	vSamePaths("C13.translated-solution", moved, vShift(base, tx, ty))
}

// H_C13_rect: the same for rectangle clipping (polygon and line).
func H_C13_rect(lines int64) {
	rect := vClipRect("r", vB29)
	T := vB52 - vB29
	tx, ty := vInt("tx", -T, T), vInt("ty", -T, T)
	r2 := NewRect64(rect.left+tx, rect.top+ty, rect.right+tx, rect.bottom+ty)
	var base, moved Paths64
	if lines != 0 {
		p := Paths64{vPolyline("l", 2, vB29)}
		base = RectClipLinesPaths64(rect, p)
		moved = RectClipLinesPaths64(r2, vShift(p, tx, ty))
	} else {
		p := Paths64{vRect("p", vB29)}
		base = RectClipPaths64(rect, p)
		moved = RectClipPaths64(r2, vShift(p, tx, ty))
	}
	vCover("C13.rect.done")
	vSamePaths("C13.translated-clip", moved, vShift(base, tx, ty))
}

// H_C13_kernels: the integer kernels at the advertised magnitude 2^61: the
// cross product of three points is computed with 64-bit products of
// coordinate differences; the property requires its sign to be right.
func H_C13_kernels(bits int64) {
	B := int64(1) << uint(bits)
	a, b, c := vPt("a", B), vPt("b", B), vPt("c", B)
	d := CrossProduct(a, b, c)
	// exact sign by comparing the two products without forming them:
	// (b-a)x(c-b) < 0  <=>  dx1*dy2 < dy1*dx2; stated on quotient-free form is
	// not possible in int64, so the harness restricts to the case where one
	// product is syntactically zero and the sign is that of the other product.
	vAssume(b.Y == a.Y) // dy1 == 0: cross = dx1*dy2
	dx1, dy2 := b.X-a.X, c.Y-b.Y
	neg := vOr(vAnd(dx1 < 0, dy2 > 0), vAnd(dx1 > 0, dy2 < 0))
	zero := vOr(dx1 == 0, dy2 == 0)
	vCover("C13.kernels.done")
	vAssert("C13.cross-sign-at-magnitude", vAnd((d < 0) == neg, (d == 0) == zero))
}

// H_C13_mul128: the 128-bit multiply behind isCollinear is exact for all
// operands up to 2^bits (coordinate differences at MaxCoord reach 2^62):
// Hi:Lo equals the sum of the four 32-bit limb products.
func H_C13_mul128(bits int64) {
	B := int64(1)<<uint(bits) - 1
	a, b := uint64(vInt("a", 0, B)), uint64(vInt("b", 0, B))
	r := multiplyUInt64(a, b)
	a0, a1 := a&0xFFFFFFFF, a>>32
	b0, b1 := b&0xFFFFFFFF, b>>32
	vCover("C13.mul128.done")
	vAssert("C13.mul128.exact", vWideEq(r.Hi64, r.Lo64, a1*b1, a1*b0+a0*b1, a0*b0))
}

// H_C13_mul128_table: the same identity on a fixed table of limb-boundary
// operands (all pairs), evaluated concretely by the interpreter. The symbolic
// job proves the identity for the unchanged code by normalisation; for a
// broken multiply the solver rarely finds the carry witness in time, so this
// table keeps the classic carry cases in the check.
func H_C13_mul128_table() {
	t := []uint64{0, 1, 2, 0xFFFFFFFF, 0x100000000, 0x100000001, 0x1FFFFFFFF, 0xFFFFFFFF00000000,
		0xFFFFFFFFFFFFFFFF, 0x8000000000000000, 0x7FFFFFFFFFFFFFFF, 0x3FFFFFFFFFFFFFFF, 0xC0000000, 0x180000000,
		3 << 30, 1 << 31, 5 << 30, 0xDEADBEEFCAFEF00D, 0x123456789ABCDEF}
	for _, a := range t {
		for _, b := range t {
			r := multiplyUInt64(a, b)
			a0, a1 := a&0xFFFFFFFF, a>>32
			b0, b1 := b&0xFFFFFFFF, b>>32
			_, _, _, _ = a0, a1, b0, b1
			vAssert("C13.mul128.table", vMul128Check(a, b, r.Hi64, r.Lo64))
		}
	}
	vCover("C13.mul128.table.done")
}
