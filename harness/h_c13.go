//go:build verif

package go_clipper2

const vB52 = int64(1) << 52

func vShift(ps Paths64, tx, ty int64) Paths64 {
	return vMapPoints(ps, func(p Point64) Point64 { return Point64{p.X + tx, p.Y + ty} })
}

// H_C13_bool: translating every input by the same vector (magnitudes up to
// 2^52) translates the solution. The base input is a rectilinear family with
// sides in [-2^29, 2^29]; (tx, ty) is symbolic in [-(2^52-2^29), 2^52-2^29].
func H_C13_bool(fam, ct, fr int64) {
	subj, clip := vFamily(fam)
	T := vB52 - vB29
	tx, ty := vInt("tx", -T, T), vInt("ty", -T, T)
	base := BooleanOpPaths64(ClipType(ct), subj, clip, FillRule(fr))
	moved := BooleanOpPaths64(ClipType(ct), vShift(subj, tx, ty), vShift(clip, tx, ty), FillRule(fr))
	vCover("C13.bool.done")
	vSamePaths("C13.translated-solution", moved, vShift(base, tx, ty))
}

// H_C13_rect: the same for rectangle clipping (polygon and line).
func H_C13_rect(lines int64) {
	rect := vClipRect("r", vB29)
	T := vB52 - vB29
	tx, ty := vInt("tx", -T, T), vInt("ty", -T, T)
	r2 := NewRect64(rect.left+tx, rect.top+ty, rect.right+tx, rect.bottom+ty)
	var base, moved Paths64
	if lines != 0 {
		p := Paths64{vPolyline("l", 2, vB29)}
		base = RectClipLinesPaths64(rect, p)
		moved = RectClipLinesPaths64(r2, vShift(p, tx, ty))
	} else {
		p := Paths64{vRect("p", vB29)}
		base = RectClipPaths64(rect, p)
		moved = RectClipPaths64(r2, vShift(p, tx, ty))
	}
	vCover("C13.rect.done")
	vSamePaths("C13.translated-clip", moved, vShift(base, tx, ty))
}

// H_C13_kernels: the integer kernels at the advertised magnitude 2^61: the
// cross product of three points is computed with 64-bit products of
// coordinate differences; the property requires its sign to be right.
func H_C13_kernels(bits int64) {
	B := int64(1) << uint(bits)
	a, b, c := vPt("a", B), vPt("b", B), vPt("c", B)
	d := CrossProduct(a, b, c)
	// exact sign by comparing the two products without forming them:
	// (b-a)x(c-b) < 0  <=>  dx1*dy2 < dy1*dx2; stated on quotient-free form is
	// not possible in int64, so the harness restricts to the case where one
	// product is syntactically zero and the sign is that of the other product.
	vAssume(b.Y == a.Y) // dy1 == 0: cross = dx1*dy2
	dx1, dy2 := b.X-a.X, c.Y-b.Y
	neg := vOr(vAnd(dx1 < 0, dy2 > 0), vAnd(dx1 > 0, dy2 < 0))
	zero := vOr(dx1 == 0, dy2 == 0)
	vCover("C13.kernels.done")
	vAssert("C13.cross-sign-at-magnitude", vAnd((d < 0) == neg, (d == 0) == zero))
}
