//go:build verif

package go_clipper2

// vFamily builds the rectilinear input families R(ks, kc): ks subject and kc
// clip axis-aligned rectangles with fully symbolic sides and orientations.
//
//	0: R(1,1)  1: R(2,0)  2: R(2,1)  3: R(1,2)  4: R(3,0)  5: R(1,0)
func vFamily(fam int64) (subj, clip Paths64) {
	ks, kc := 1, 1
	switch fam {
	case 1:
		ks, kc = 2, 0
	case 2:
		ks, kc = 2, 1
	case 3:
		ks, kc = 1, 2
	case 4:
		ks, kc = 3, 0
	case 5:
		ks, kc = 1, 0
	}
	names := []string{"s", "t", "u"}
	for i := 0; i < ks; i++ {
		subj = append(subj, vRect(names[i], vB29))
	}
	cn := []string{"c", "d"}
	for i := 0; i < kc; i++ {
		clip = append(clip, vRect(cn[i], vB29))
	}
	if kc == 0 {
		clip = nil
	}
	return subj, clip
}

// vCellsAgree asserts that two regions, given per cell by a and b, agree on
// every cell that contains a probe point more than m units from every edge of
// the paths in far.
func vCellsAgree(id string, g vGrid, a, b func(i, j int) bool, m int64, far ...Paths64) {
	for i := 0; i+1 < len(g.X); i++ {
		for j := 0; j+1 < len(g.Y); j++ {
			if a(i, j) != b(i, j) {
				vCover(id + ".mismatch-cell")
				vAssert(id, !g.vCellFarProbe(i, j, m, vB29+8, far...))
			}
		}
	}
}

// vCellInside: region of paths under a fill rule, per cell; also asserts that
// the paths are rectilinear.
func vCellInside(id string, g vGrid, paths Paths64, fr FillRule) func(i, j int) bool {
	return func(i, j int) bool {
		w, ok := g.vCellWind(paths, i, j)
		vAssert(id+".rectilinear", ok)
		return vFillC(fr, w)
	}
}
