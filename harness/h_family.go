//go:build verif

package go_clipper2

// vFamily builds the rectilinear input families R(ks, kc): ks subject and kc
// clip axis-aligned rectangles with fully symbolic sides and orientations.
//
//	0: R(1,1)  1: R(2,0)  2: R(2,1)  3: R(1,2)  4: R(3,0)  5: R(1,0)
func vFamily(fam int64) (subj, clip Paths64) {
	if fam == 14 {
		// like family 8 with both clip rectangles strictly inside the subject
		// (in y as well); the y-relation between the two clips stays free
		s, c, d := vRectPos("s", vB29), vRectPos("c", vB29), vRectPos("d", vB29)
		vAssume(vAnd(vAnd(s[0].X < c[0].X, c[1].X < d[0].X), d[1].X < s[1].X))
		vAssume(vAnd(vAnd(s[0].Y < c[0].Y, c[2].Y < s[2].Y), vAnd(s[0].Y < d[0].Y, d[2].Y < s[2].Y)))
		return Paths64{s}, Paths64{c, d}
	}
	if fam == 8 {
		// R(1,2) restricted: both clip rectangles lie within the subject's
		// x-range, the first strictly left of the second; all y-relations free;
		// positive orientation.
		s, c, d := vRectPos("s", vB29), vRectPos("c", vB29), vRectPos("d", vB29)
		vAssume(vAnd(vAnd(s[0].X < c[0].X, c[1].X < d[0].X), d[1].X < s[1].X))
		return Paths64{s}, Paths64{c, d}
	}
	if fam == 9 {
		// R(2,1) restricted the same way: two subject rectangles inside the clip's x-range
		s, t, c := vRectPos("s", vB29), vRectPos("t", vB29), vRectPos("c", vB29)
		vAssume(vAnd(vAnd(c[0].X < s[0].X, s[1].X < t[0].X), t[1].X < c[1].X))
		return Paths64{s, t}, Paths64{c}
	}
	if fam == 10 || fam == 11 {
		// abutting: A and B share the vertical line x = xm (A to its left, B to
		// its right) and C's left side lies on the same line; every other side
		// and all y-relations are free. fam 10: A, B subject, C clip; fam 11: all subject.
		xm := vInt("xm", -vB29, vB29)
		ax0, bx1, cx1 := vInt("ax0", -vB29, vB29), vInt("bx1", -vB29, vB29), vInt("cx1", -vB29, vB29)
		vAssume(vAnd(ax0 < xm, vAnd(xm < bx1, xm < cx1)))
		ys := func(n string) (int64, int64) {
			y0, y1 := vInt(n+"y0", -vB29, vB29), vInt(n+"y1", -vB29, vB29)
			vAssume(y0 < y1)
			return y0, y1
		}
		ay0, ay1 := ys("a")
		by0, by1 := ys("b")
		cy0, cy1 := ys("c")
		a := Path64{{ax0, ay0}, {xm, ay0}, {xm, ay1}, {ax0, ay1}}
		b := Path64{{xm, by0}, {bx1, by0}, {bx1, by1}, {xm, by1}}
		c := Path64{{xm, cy0}, {cx1, cy0}, {cx1, cy1}, {xm, cy1}}
		if fam == 10 {
			return Paths64{a, b}, Paths64{c}
		}
		return Paths64{a, b, c}, nil
	}
	if fam == 15 {
		// straddling: A and B abut on x = xm (A left, B right); A spans the
		// scanline y = yl on which B's top edge and C's bottom edge lie; C
		// straddles xm, so its bottom edge runs from inside A across the vertex
		// (xm, yl) onto B's top edge. A, B subject, C clip. The other y- and
		// x-relations (ay0 vs by0, ay1 vs cy1, cx1 vs bx1) stay free.
		xm, yl := vInt("xm", -vB29, vB29), vInt("yl", -vB29, vB29)
		ax0, cx0, cx1, bx1 := vInt("ax0", -vB29, vB29), vInt("cx0", -vB29, vB29), vInt("cx1", -vB29, vB29), vInt("bx1", -vB29, vB29)
		ay0, ay1, by0, cy1 := vInt("ay0", -vB29, vB29), vInt("ay1", -vB29, vB29), vInt("by0", -vB29, vB29), vInt("cy1", -vB29, vB29)
		vAssume(vAnd(vAnd(ax0 < cx0, cx0 < xm), vAnd(xm < cx1, xm < bx1)))
		vAssume(vAnd(vAnd(ay0 < yl, yl < ay1), vAnd(by0 < yl, yl < cy1)))
		a := Path64{{ax0, ay0}, {xm, ay0}, {xm, ay1}, {ax0, ay1}}
		b := Path64{{xm, by0}, {bx1, by0}, {bx1, yl}, {xm, yl}}
		c := Path64{{cx0, yl}, {cx1, yl}, {cx1, cy1}, {cx0, cy1}}
		return Paths64{a, b}, Paths64{c}
	}
	if fam == 12 {
		// R(1,2) with the two clip rectangles overlapping in x inside the subject's x-range
		s, c, d := vRectPos("s", vB29), vRectPos("c", vB29), vRectPos("d", vB29)
		vAssume(vAnd(vAnd(s[0].X < c[0].X, c[0].X < d[0].X), vAnd(d[0].X < c[1].X, vAnd(c[1].X < d[1].X, d[1].X < s[1].X))))
		return Paths64{s}, Paths64{c, d}
	}
	if fam == 13 {
		// a subject rectangle, a clip strip spanning its full height (same y
		// variables) and a second clip rectangle strictly inside the right piece
		x0, x1, x2, x3 := vInt("x0", -vB29, vB29), vInt("x1", -vB29, vB29), vInt("x2", -vB29, vB29), vInt("x3", -vB29, vB29)
		x4, x5 := vInt("x4", -vB29, vB29), vInt("x5", -vB29, vB29)
		y0, y3, y4, y5 := vInt("y0", -vB29, vB29), vInt("y3", -vB29, vB29), vInt("y4", -vB29, vB29), vInt("y5", -vB29, vB29)
		vAssume(vAnd(vAnd(x0 < x1, x1 < x2), vAnd(x2 < x4, vAnd(x4 < x5, x5 < x3))))
		vAssume(vAnd(y0 < y4, vAnd(y4 < y5, y5 < y3)))
		s := Path64{{x0, y0}, {x3, y0}, {x3, y3}, {x0, y3}}
		strip := Path64{{x1, y0}, {x2, y0}, {x2, y3}, {x1, y3}}
		hole := Path64{{x4, y4}, {x5, y4}, {x5, y5}, {x4, y5}}
		return Paths64{s}, Paths64{strip, hole}
	}
	ks, kc := 1, 1
	switch fam {
	case 1:
		ks, kc = 2, 0
	case 2:
		ks, kc = 2, 1
	case 3:
		ks, kc = 1, 2
	case 4:
		ks, kc = 3, 0
	case 5:
		ks, kc = 1, 0
	}
	names := []string{"s", "t", "u"}
	for i := 0; i < ks; i++ {
		subj = append(subj, vRect(names[i], vB29))
	}
	cn := []string{"c", "d"}
	for i := 0; i < kc; i++ {
		clip = append(clip, vRect(cn[i], vB29))
	}
	if kc == 0 {
		clip = nil
	}
	return subj, clip
}

// vCellsAgree asserts that two regions, given per cell by a and b, agree on
// every cell that contains a probe point more than m units from every edge of
// the paths in far.
func vCellsAgree(id string, g vGrid, a, b func(i, j int) bool, m int64, far ...Paths64) {
	for i := 0; i+1 < len(g.X); i++ {
		for j := 0; j+1 < len(g.Y); j++ {
			if a(i, j) != b(i, j) {
				vCover(id + ".mismatch-cell")
				vAssert(id, !g.vCellFarProbe(i, j, m, vB29+8, far...))
			}
		}
	}
}

// vCellInside: region of paths under a fill rule, per cell; also asserts that
// the paths are rectilinear.
func vCellInside(id string, g vGrid, paths Paths64, fr FillRule) func(i, j int) bool {
	return func(i, j int) bool {
		w, ok := g.vCellWind(paths, i, j)
		vAssert(id+".rectilinear", ok)
		return vFillC(fr, w)
	}
}

// vRectPos: like vRect but always positively oriented.
func vRectPos(name string, bound int64) Path64 {
	x0, x1 := vInt(name+"x0", -bound, bound), vInt(name+"x1", -bound, bound)
	y0, y1 := vInt(name+"y0", -bound, bound), vInt(name+"y1", -bound, bound)
	vAssume(x0 < x1)
	vAssume(y0 < y1)
	return Path64{{x0, y0}, {x1, y0}, {x1, y1}, {x0, y1}}
}
