//go:build verif

package go_clipper2

func vSamePaths(id string, a, b Paths64) {
	vAssert(id+".count", len(a) == len(b))
	if len(a) != len(b) {
		return
	}
	for i := range a {
		vAssert(id+".len", len(a[i]) == len(b[i]))
		if len(a[i]) == len(b[i]) {
			for k := range a[i] {
				vAssert(id+".vertex", vPtEq(a[i][k], b[i][k]))
			}
		}
	}
}

func vSameRegion(id string, subj, clip, a, b Paths64) {
	cl := clip
	if cl == nil {
		cl = Paths64{}
	}
	g := vGridOf(subj, cl, a, b)
	vCellsAgree(id, g, vCellInside(id+".a", g, a, NonZero), vCellInside(id+".b", g, b, NonZero), 2, subj, cl)
}

func vJunk() Paths64 {
	return Paths64{{{1, 1}, {5, 1}, {5, 5}}, {{7, 7}, {9, 7}, {9, 9}, {7, 9}}}
}

// H_C12_hist: an engine's answer after some history versus a fresh engine
// given the same paths in one call. seq selects the history (see DESIGN C12).
func H_C12_hist(fam, ct, fr, seq int64) {
	subj, clip := vFamily(fam)
	vFreeze(subj, "subject")
	vFreeze(clip, "clip")
	c, f := ClipType(ct), FillRule(fr)
	fresh, okf := vRunClipper(c, f, subj, clip, false, true)
	vAssert("C12.fresh-ok", okf)

	e := NewClipper64()
	add := func() {
		e.AddPaths(subj, Subject, false)
		if clip != nil {
			e.AddPaths(clip, Clip, false)
		}
	}
	sol := make(Paths64, 0)
	switch seq {
	case 0: // an earlier execution with another clip type and fill rule
		add()
		other := make(Paths64, 0)
		e.Execute(ClipType(ct%4+1), FillRule((fr+1)%4), &other)
		vAssert("C12.ok", e.Execute(c, f, &sol))
		vSamePaths("C12.after-other-execute", sol, fresh)
	case 1: // an earlier tree execution
		add()
		tree := NewPolyTree64()
		open := make(PathsD, 0)
		e.ExecutePolyTree64(c, f, tree, &open)
		vAssert("C12.ok", e.Execute(c, f, &sol))
		vSamePaths("C12.after-tree-execute", sol, fresh)
	case 2: // paths added in several calls, same overall order
		for _, p := range subj {
			e.AddPaths(Paths64{p}, Subject, false)
		}
		for _, p := range clip {
			e.AddPaths(Paths64{p}, Clip, false)
		}
		vAssert("C12.ok", e.Execute(c, f, &sol))
		vSamePaths("C12.split-addpaths", sol, fresh)
	case 3: // clip set added before the subject set
		if clip != nil {
			e.AddPaths(clip, Clip, false)
		}
		e.AddPaths(subj, Subject, false)
		vAssert("C12.ok", e.Execute(c, f, &sol))
		vSameRegion("C12.clip-first", subj, clip, sol, fresh)
	case 4: // solution argument already holds data
		add()
		sol = vJunk()
		vAssert("C12.ok", e.Execute(c, f, &sol))
		vSamePaths("C12.prefilled-solution", sol, fresh)
	case 5: // ExecuteOC with both arguments pre-filled
		add()
		sol = vJunk()
		open := vJunk()
		vAssert("C12.ok", e.ExecuteOC(c, f, &sol, &open))
		vSamePaths("C12.prefilled-oc", sol, fresh)
		vAssert("C12.prefilled-oc.open-empty", len(open) == 0)
	case 6: // the same execution twice
		add()
		first := make(Paths64, 0)
		e.Execute(c, f, &first)
		vAssert("C12.ok", e.Execute(c, f, &sol))
		vSamePaths("C12.execute-twice", sol, fresh)
	case 7: // subject paths added in reverse order
		for i := len(subj) - 1; i >= 0; i-- {
			e.AddPaths(Paths64{subj[i]}, Subject, false)
		}
		if clip != nil {
			e.AddPaths(clip, Clip, false)
		}
		vAssert("C12.ok", e.Execute(c, f, &sol))
		vSameRegion("C12.reverse-add-order", subj, clip, sol, fresh)
	case 9: // more paths added after an execution (the clip set arrives late)
		e.AddPaths(subj, Subject, false)
		first := make(Paths64, 0)
		e.Execute(c, f, &first)
		if clip != nil {
			e.AddPaths(clip, Clip, false)
		}
		vAssert("C12.ok", e.Execute(c, f, &sol))
		vSamePaths("C12.add-after-execute", sol, fresh)
	case 8: // tree execution after a paths execution equals a fresh tree execution
		add()
		first := make(Paths64, 0)
		e.Execute(c, f, &first)
		t1 := NewPolyTree64()
		o1 := make(PathsD, 0)
		e.ExecutePolyTree64(c, f, t1, &o1)
		t2 := BooleanOpPolyTree64(c, subj, clip, f)
		vSamePaths("C12.tree-after-paths", vTreePaths(t1.PolyPathBase), vTreePaths(t2.PolyPathBase))
	}
	vCover("C12.done")
}

// vTreePaths lists the polygons of a tree in depth-first order.
func vTreePaths(n *PolyPathBase) Paths64 {
	var out Paths64
	for _, ch := range n.childs {
		out = append(out, ch.polygon)
		out = append(out, vTreePaths(ch)...)
	}
	if out == nil {
		out = Paths64{}
	}
	return out
}

// H_C12_D: the floating-point engine must replace, not extend, a solution
// argument that already holds data.
func H_C12_D(ct, fr int64) {
	x0, x1 := vFloatInt("x0", -1000, 1000), vFloatInt("x1", -1000, 1000)
	y0, y1 := vFloatInt("y0", -1000, 1000), vFloatInt("y1", -1000, 1000)
	vAssume(x0 < x1)
	vAssume(y0 < y1)
	subj := PathsD{{{x0, y0}, {x1, y0}, {x1, y1}, {x0, y1}}}
	clip := PathsD{{{0, 0}, {50, 0}, {50, 50}, {0, 50}}}
	fresh := BooleanOpPathsD(ClipType(ct), subj, clip, FillRule(fr), 2)
	e := NewClipperD(2)
	e.AddPaths(subj, Subject, false)
	e.AddPaths(clip, Clip, false)
	sol := PathsD{{{1, 1}, {2, 1}, {2, 2}}}
	vAssert("C12.D.ok", e.Execute(ClipType(ct), FillRule(fr), &sol))
	vAssert("C12.D.prefilled-solution.count", len(sol) == len(fresh))
	vCover("C12.D.done")
}

// H_C18_inflate: the offsetting entry points on concrete input with options,
// for the shared-state monitor (offset.go takes sqrt/trig of its input, so the
// input is concrete; the monitor still sees every Store on the path).
func H_C18_inflate(join int64) {
	sq := Paths64{{{0, 0}, {100, 0}, {100, 100}, {0, 100}}}
	vFreeze(sq, "paths")
	a := InflatePaths64(sq, 10, JoinType(join), Polygon, WithMitterLimit(3), WithArcTolerance(0.25))
	b := InflatePaths64(sq, -10, JoinType(join), Polygon)
	c := InflatePathsD(PathsD{{{0, 0}, {10, 0}, {10, 10}, {0, 10}}}, 1.5, JoinType(join), Polygon, WithPrecision(1))
	vCover("C18.inflate.done")
	vAssert("C18.inflate.nonempty", len(a) > 0 && len(b) > 0 && len(c) > 0)
}
