//go:build verif

package go_clipper2

// H_C19_R: the four clip types on the same inputs, identities cell by cell.
func H_C19_R(fam, fr int64) {
	subj, clip := vFamily(fam)
	f := FillRule(fr)
	cl := clip
	if cl == nil {
		cl = Paths64{}
	}
	inter := BooleanOpPaths64(Intersection, subj, cl, f)
	union := BooleanOpPaths64(Union, subj, cl, f)
	diff := BooleanOpPaths64(Difference, subj, cl, f)
	xor := BooleanOpPaths64(Xor, subj, cl, f)
	diff2 := BooleanOpPaths64(Difference, cl, subj, f)
	g := vGridOf(subj, cl, inter, union, diff, xor, diff2)
	in := func(id string, ps Paths64) func(i, j int) bool { return vCellInside(id, g, ps, NonZero) }
	I, U, D, X, D2 := in("C19.I", inter), in("C19.U", union), in("C19.D", diff), in("C19.X", xor), in("C19.D2", diff2)
	S := vCellInside("C19.S", g, subj, f)
	and := func(a, b func(i, j int) bool, nb bool) func(i, j int) bool {
		return func(i, j int) bool { return a(i, j) && (b(i, j) != nb) }
	}
	vCellsAgree("C19.xor=union-minus-inter", g, X, and(U, I, true), 2, subj, cl)
	vCellsAgree("C19.diff=subject-minus-inter", g, D, and(S, I, true), 2, subj, cl)
	none := func(i, j int) bool { return false }
	vCellsAgree("C19.disjoint.D.I", g, and(D, I, false), none, 2, subj, cl)
	vCellsAgree("C19.disjoint.D.D2", g, and(D, D2, false), none, 2, subj, cl)
	vCellsAgree("C19.disjoint.I.D2", g, and(I, D2, false), none, 2, subj, cl)
	parts := func(i, j int) bool { return D(i, j) || I(i, j) || D2(i, j) }
	vCellsAgree("C19.parts-make-union", g, parts, U, 2, subj, cl)
	// UnionPaths64 of the subject alone equals Union with an empty clip
	u1 := UnionPaths64(subj, f)
	u2 := BooleanOpPaths64(Union, subj, Paths64{}, f)
	g2 := vGridOf(subj, u1, u2)
	vCellsAgree("C19.unionpaths", g2, vCellInside("C19.u1", g2, u1, NonZero), vCellInside("C19.u2", g2, u2, NonZero), 2, subj)
	vCover("C19.done")
}
