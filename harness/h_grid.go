//go:build verif

package go_clipper2

// Cell oracle for rectilinear families. All vertices of inputs and outputs lie
// on the grid spanned by the distinct coordinate values; the winding number of
// a rectilinear path is constant on each open grid cell, so region equality is
// decided cell by cell with index arithmetic that is concrete once the order
// of the symbolic coordinates is fixed (the path condition fixes it; undecided
// comparisons fork). Only for a mismatching cell is the solver asked whether
// the cell contains a probe point far from every input edge.

// vSortDistinct inserts vals into a sorted list of distinct values, branching
// on the symbolic comparisons.
func vSortDistinct(out []int64, vals []int64) []int64 {
	for _, v := range vals {
		pos := 0
		dup := false
		for pos < len(out) {
			if v == out[pos] {
				dup = true
				break
			}
			if v < out[pos] {
				break
			}
			pos++
		}
		if dup {
			continue
		}
		out = append(out, 0)
		copy(out[pos+1:], out[pos:])
		out[pos] = v
	}
	return out
}

func vGridIndex(grid []int64, v int64) int {
	for k := range grid {
		if grid[k] == v {
			return k
		}
	}
	return -1
}

type vGrid struct {
	X, Y []int64
}

func vGridOf(sets ...Paths64) vGrid {
	var g vGrid
	for _, ps := range sets {
		for _, p := range ps {
			xs := make([]int64, 0, len(p))
			ys := make([]int64, 0, len(p))
			for _, pt := range p {
				xs = append(xs, pt.X)
				ys = append(ys, pt.Y)
			}
			g.X = vSortDistinct(g.X, xs)
			g.Y = vSortDistinct(g.Y, ys)
		}
	}
	return g
}

// vCellWind: winding number of paths on cell (i,j) = (X[i],X[i+1]) x (Y[j],Y[j+1]).
// ok=false if some edge is not axis-parallel.
func (g vGrid) vCellWind(paths Paths64, i, j int) (w int, ok bool) {
	ok = true
	for _, p := range paths {
		n := len(p)
		for k := 0; k < n; k++ {
			a, b := p[k], p[(k+1)%n]
			iax, ibx := vGridIndex(g.X, a.X), vGridIndex(g.X, b.X)
			jay, jby := vGridIndex(g.Y, a.Y), vGridIndex(g.Y, b.Y)
			if iax != ibx && jay != jby {
				ok = false
				continue
			}
			if iax != ibx {
				continue // horizontal edge: never crossed by the rightward ray of an open cell
			}
			if i >= iax { // cell not to the left of the edge
				continue
			}
			if jay <= j && j < jby {
				w++
			} else if jby <= j && j < jay {
				w--
			}
		}
	}
	return w, ok
}

// vCellFarProbe: a fresh symbolic probe strictly inside cell (i,j) together
// with the condition that it is more than m units from every edge of far.
func (g vGrid) vCellFarProbe(i, j int, m int64, bound int64, far ...Paths64) bool {
	p := vPt("probe", bound)
	in := vAnd(vAnd(g.X[i] < p.X, p.X < g.X[i+1]), vAnd(g.Y[j] < p.Y, p.Y < g.Y[j+1]))
	f := in
	for _, ps := range far {
		f = vAnd(f, vFar(ps, p, m))
	}
	return f
}
