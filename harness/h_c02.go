//go:build verif

package go_clipper2

// vRunClipper runs a closed-path boolean operation with the engine options
// set directly (in-package access replaces the option setter hook).
func vRunClipper(ct ClipType, fr FillRule, subj, clip Paths64, reverse, preserve bool) (Paths64, bool) {
	c := NewClipper64()
	c.reverseSolution = reverse
	c.preserveCollinear = preserve
	c.AddPaths(subj, Subject, false)
	if clip != nil {
		c.AddPaths(clip, Clip, false)
	}
	sol := make(Paths64, 0)
	ok := c.Execute(ct, fr, &sol)
	return sol, ok
}

// vCanonical asserts C02's statements about one closed solution.
func vCanonical(id string, sol Paths64, reversed bool) {
	for _, p := range sol {
		vAssert(id+".len>=3", len(p) >= 3)
		n := len(p)
		for k := 0; k < n; k++ {
			vAssert(id+".no-repeated-vertex", !vPtEq(p[k], p[(k+1)%n]))
		}
	}
	g := vGridOf(sol)
	for i := 0; i+1 < len(g.X); i++ {
		for j := 0; j+1 < len(g.Y); j++ {
			w, ok := g.vCellWind(sol, i, j)
			vAssert(id+".rectilinear", ok)
			good := w == 0 || w == 1
			if reversed {
				good = w == 0 || w == -1
			}
			if !good {
				vCover(id + ".bad-winding-cell")
				vAssert(id+".winding-0-or-1", !g.vCellFarProbe(i, j, 2, vB29+8, sol))
			}
		}
	}
}

// H_C02_R: canonical solutions on a rectilinear family.
// opts bit0: reverseSolution, bit1: preserveCollinear off.
func H_C02_R(fam, ct, fr, opts int64) {
	subj, clip := vFamily(fam)
	reverse := opts&1 != 0
	preserve := opts&2 == 0
	sol, ok := vRunClipper(ClipType(ct), FillRule(fr), subj, clip, reverse, preserve)
	vAssert("C02.execute-ok", ok)
	vObservePaths("sol", sol)
	vCanonical("C02", sol, reverse)
	vCover("C02.done")
}

// H_C02_reunion: re-uniting a solution with itself changes nothing outside the
// rounding band.
func H_C02_reunion(fam, ct, fr int64) {
	subj, clip := vFamily(fam)
	sol := BooleanOpPaths64(ClipType(ct), subj, clip, FillRule(fr))
	again := UnionPaths64(sol, NonZero)
	g := vGridOf(sol, again)
	vCellsAgree("C02.reunion", g, vCellInside("C02.reunion.a", g, sol, NonZero), vCellInside("C02.reunion.b", g, again, NonZero), 2, sol)
	vCover("C02.reunion.done")
}
