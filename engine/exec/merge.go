package exec

import (
	"fmt"
	"go/types"

	"golang.org/x/tools/go/ssa"

	"gosymx/smt"
	"gosymx/sym"
)

// Merge mode: predicated execution of an acyclic function. Every block gets a
// guard; phis become ite terms; stores are guarded; nothing forks.

func topoBlocks(fn *ssa.Function) ([]*ssa.BasicBlock, bool) {
	state := map[*ssa.BasicBlock]int{}
	var order []*ssa.BasicBlock
	ok := true
	var visit func(b *ssa.BasicBlock)
	visit = func(b *ssa.BasicBlock) {
		if state[b] == 1 {
			ok = false
			return
		}
		if state[b] == 2 {
			return
		}
		state[b] = 1
		for _, s := range b.Succs {
			visit(s)
		}
		state[b] = 2
		order = append(order, b)
	}
	visit(fn.Blocks[0])
	for i, j := 0, len(order)-1; i < j; i, j = i+1, j-1 {
		order[i], order[j] = order[j], order[i]
	}
	return order, ok
}

func (m *Machine) iteValue(c *sym.Bool, a, b Value, t types.Type) Value {
	if c.Kind == sym.BConst {
		if c.Val {
			return a
		}
		return b
	}
	switch u := t.Underlying().(type) {
	case *types.Basic:
		if k, ok := basicIntKind(t); ok {
			return m.intVal(m.ctx.Ite(c, m.lin(a, k), m.lin(b, k)), k)
		}
		if isFloatType(t) {
			if _, sp := isSpecial(a); sp {
				m.unsupported("merge of special float")
			}
			if _, sp := isSpecial(b); sp {
				m.unsupported("merge of special float")
			}
			return m.fval(m.ctx.Ite(c, m.fl(a), m.fl(b)), false)
		}
		if u.Info()&types.IsBoolean != 0 {
			return m.boolVal(m.ctx.BIte(c, m.boolTerm(a), m.boolTerm(b)))
		}
		if u.Info()&types.IsString != 0 && a.(string) == b.(string) {
			return a
		}
	case *types.Struct:
		as, bs := aggValues(a), aggValues(b)
		out := make(StructV, len(as))
		for i := range as {
			out[i] = m.iteValue(c, as[i], bs[i], u.Field(i).Type())
		}
		return out
	case *types.Array:
		as, bs := aggValues(a), aggValues(b)
		out := make(ArrayV, len(as))
		for i := range as {
			out[i] = m.iteValue(c, as[i], bs[i], u.Elem())
		}
		return out
	case *types.Pointer:
		if a.(*Cell) == b.(*Cell) {
			return a
		}
	case *types.Tuple:
		as, bs := a.(TupleV), b.(TupleV)
		out := make(TupleV, len(as))
		for i := range as {
			out[i] = m.iteValue(c, as[i], bs[i], u.At(i).Type())
		}
		return out
	case *types.Slice:
		as, bs := a.(SliceV), b.(SliceV)
		if as.Len == bs.Len && as.Off == bs.Off && as.Cap == bs.Cap && (as.Len == 0 || &as.Back[0] == &bs.Back[0]) {
			return a
		}
	}
	m.unsupported("merge of values of type " + t.String())
	return nil
}

// guardedPanic: a panic site reached under guard g inside merge mode. If the
// guard is infeasible under the path condition the site is ignored; otherwise
// the merge attempt is abandoned.
func (m *Machine) guardInfeasible(g *sym.Bool) bool {
	if g.Kind == sym.BConst {
		return !g.Val
	}
	return m.query(g) == smt.Unsat
}

type mergeAbort struct{ why string }

func (m *Machine) callMerged(fn *ssa.Function, args []Value) Value {
	order, ok := topoBlocks(fn)
	if !ok {
		m.unsupported("merge-mode function has a loop: " + fn.Name())
	}
	outer := m.mergeGuard
	entryGuard := outer
	if entryGuard == nil {
		entryGuard = m.ctx.True
	}
	defer func() { m.mergeGuard = outer }()
	m.callDepth++
	m.curFn = append(m.curFn, fn)
	defer func() {
		m.callDepth--
		m.curFn = m.curFn[:len(m.curFn)-1]
	}()
	fi := m.W.info(fn)
	fr := &frame{fn: fn, fi: fi, locals: make([]Value, fi.n)}
	for i, p := range fn.Params {
		fr.locals[fi.index[p]] = args[i]
	}
	type edge struct{ from, to *ssa.BasicBlock }
	eg := map[edge]*sym.Bool{}
	var retVal Value
	var retSet bool
	resT := fn.Signature.Results()
	var retType types.Type
	switch resT.Len() {
	case 0:
	case 1:
		retType = resT.At(0).Type()
	default:
		retType = resT
	}
	c := m.ctx
	for _, b := range order {
		var g *sym.Bool
		if b == fn.Blocks[0] {
			g = entryGuard
		} else {
			gs := make([]*sym.Bool, 0, len(b.Preds))
			for _, p := range b.Preds {
				if e, ok := eg[edge{p, b}]; ok {
					gs = append(gs, e)
				}
			}
			g = c.OrN(gs)
		}
		if g.Kind == sym.BConst && !g.Val {
			continue
		}
		m.mergeGuard = g
		for _, in := range b.Instrs {
			m.steps++
			switch x := in.(type) {
			case *ssa.Phi:
				var val Value
				first := true
				for i, p := range b.Preds {
					e, ok := eg[edge{p, b}]
					if !ok || (e.Kind == sym.BConst && !e.Val) {
						continue
					}
					v := m.get(fr, x.Edges[i])
					if first {
						val, first = v, false
					} else {
						val = m.iteValue(e, v, val, x.Type())
					}
				}
				m.set(fr, x, val)
			case *ssa.If:
				cv := m.boolTerm(m.get(fr, x.Cond))
				eg[edge{b, b.Succs[0]}] = c.And(g, cv)
				eg[edge{b, b.Succs[1]}] = c.And(g, c.Not(cv))
			case *ssa.Jump:
				eg[edge{b, b.Succs[0]}] = g
			case *ssa.Return:
				var v Value
				switch len(x.Results) {
				case 0:
				case 1:
					v = m.get(fr, x.Results[0])
				default:
					tv := make(TupleV, len(x.Results))
					for i, r := range x.Results {
						tv[i] = m.get(fr, r)
					}
					v = tv
				}
				if retType != nil {
					if !retSet {
						retVal, retSet = v, true
					} else {
						retVal = m.iteValue(g, v, retVal, retType)
					}
				}
			case *ssa.Panic:
				if !m.guardInfeasible(g) {
					m.unsupported("panic reachable inside merge-mode function " + fn.Name())
				}
			case *ssa.Store:
				addr := m.get(fr, x.Addr).(*Cell)
				v := m.get(fr, x.Val)
				if g.Kind == sym.BConst && g.Val {
					m.store(addr, v)
				} else {
					if addr == nil {
						if !m.guardInfeasible(g) {
							m.unsupported("nil store reachable in merge mode")
						}
						continue
					}
					old := loadCell(addr)
					m.store(addr, m.iteValue(g, v, old, x.Val.Type()))
				}
			default:
				m.execGuarded(fr, in, g)
			}
		}
	}
	if retType != nil && !retSet {
		m.unsupported("merge-mode function without reachable return: " + fn.Name())
	}
	return retVal
}

// execGuarded executes a non-control instruction inside merge mode. Go-level
// panics raised under a non-trivial guard are tolerated when the guard is
// infeasible (the result is then irrelevant and set to the zero value).
func (m *Machine) execGuarded(fr *frame, in ssa.Instruction, g *sym.Bool) {
	if g.Kind == sym.BConst && g.Val {
		m.exec(fr, in)
		return
	}
	defer func() {
		if r := recover(); r != nil {
			gp, ok := r.(goPanicT)
			if !ok {
				panic(r)
			}
			if !m.guardInfeasible(g) {
				m.unsupported(fmt.Sprintf("panic (%s) reachable inside merge-mode function %s", gp.msg, fr.fn.Name()))
			}
			if v, ok := in.(ssa.Value); ok {
				m.set(fr, v, m.zero(v.Type()))
			}
		}
	}()
	m.exec(fr, in)
}
