package exec

import (
	"fmt"
	"go/constant"
	"go/token"
	"go/types"
	"strings"

	"golang.org/x/tools/go/ssa"

	"gosymx/sym"
)

type fnInfo struct {
	index map[ssa.Value]int
	n     int
}

func (w *World) info(fn *ssa.Function) *fnInfo {
	w.mu.Lock()
	defer w.mu.Unlock()
	if fi, ok := w.fnInfos[fn]; ok {
		return fi
	}
	fi := &fnInfo{index: map[ssa.Value]int{}}
	add := func(v ssa.Value) {
		fi.index[v] = fi.n
		fi.n++
	}
	for _, p := range fn.Params {
		add(p)
	}
	for _, fv := range fn.FreeVars {
		add(fv)
	}
	for _, b := range fn.Blocks {
		for _, in := range b.Instrs {
			if v, ok := in.(ssa.Value); ok {
				add(v)
			}
		}
	}
	w.fnInfos[fn] = fi
	return fi
}

type frame struct {
	fn     *ssa.Function
	fi     *fnInfo
	locals []Value
	iters  map[*ssa.BasicBlock]int
}

func (m *Machine) get(fr *frame, v ssa.Value) Value {
	switch x := v.(type) {
	case *ssa.Const:
		return m.constValue(x)
	case *ssa.Function:
		return x
	case *ssa.Builtin:
		return x
	case *ssa.Global:
		return m.globalCell(x)
	}
	i, ok := fr.fi.index[v]
	if !ok {
		panic(fmt.Sprintf("get: unknown value %s in %s", v.Name(), fr.fn.Name()))
	}
	return fr.locals[i]
}

func (m *Machine) constValue(c *ssa.Const) Value {
	t := c.Type()
	if c.Value == nil {
		return m.zero(t)
	}
	if tp, ok := t.(*types.TypeParam); ok {
		_ = tp
		m.unsupported("const of type param")
	}
	switch u := t.Underlying().(type) {
	case *types.Basic:
		switch {
		case u.Info()&types.IsBoolean != 0:
			return constant.BoolVal(c.Value)
		case u.Info()&types.IsInteger != 0:
			k, _ := basicIntKind(t)
			if k.signed {
				return k.normC(c.Int64())
			}
			return k.normC(int64(c.Uint64()))
		case u.Info()&types.IsFloat != 0:
			return c.Float64()
		case u.Info()&types.IsString != 0:
			return constant.StringVal(c.Value)
		}
	}
	m.unsupported("const " + c.String())
	return nil
}

func (m *Machine) globalCell(g *ssa.Global) *Cell {
	if c, ok := m.globals[g]; ok {
		return c
	}
	c := m.newCell(g.Type().(*types.Pointer).Elem())
	markGlobal(c, g.Name())
	m.globals[g] = c
	return c
}

func markGlobal(c *Cell, tag string) {
	c.Global = true
	c.Tag = tag
	for _, k := range c.Kids {
		markGlobal(k, tag)
	}
}

func (m *Machine) initGlobals() {
	// Run the package initialiser of the package under test (for negInf,
	// posInf, error values). Imported packages' init functions are not run;
	// their state is only reached through stubs.
	init := m.W.Pkg.Func("init")
	if init != nil {
		m.call(init, nil)
	}
}

// call executes fn with args and returns its result (TupleV for multiple).
func (m *Machine) call(fn *ssa.Function, args []Value) Value {
	return m.callClosure(fn, args, nil)
}

func fullName(fn *ssa.Function) string {
	if fn.Pkg != nil && fn.Signature.Recv() == nil {
		return fn.Pkg.Pkg.Path() + "." + fn.Name()
	}
	return fn.String()
}

func (m *Machine) callClosure(fn *ssa.Function, args []Value, env []Value) Value {
	name := fullName(fn)
	if fn.Pkg != nil && fn.Pkg != m.W.Pkg && strings.HasPrefix(fn.Name(), "init") && fn.Signature.Recv() == nil {
		return nil // imported packages' initialisers are not run (their state is reached only through stubs)
	}
	if h, ok := m.W.intrinsics[name]; ok {
		return h(m, fn, args)
	}
	short := fn.Name()
	if i := strings.IndexByte(short, '['); i > 0 {
		short = short[:i]
	}
	if fn.Pkg == m.W.Pkg || fn.Pkg == nil {
		if h, ok := m.W.harnessIntrinsics[short]; ok && fn.Signature.Recv() == nil {
			return h(m, fn, args)
		}
		if s, ok := m.cfg.Summaries[short]; ok {
			return s(m, args)
		}
	}
	if len(fn.Blocks) == 0 {
		m.unsupported("call to external function " + name)
	}
	if m.callDepth > 400 {
		m.abort(PathBudget, "call depth")
	}
	m.res.Funcs[relName(fn)]++
	if sa, ok := m.cfg.SiteAssume[short]; ok {
		if c := sa(m, args); c != nil {
			m.Assume(c)
			m.res.SiteExcuses = appendUnique(m.res.SiteExcuses, short)
		}
	}
	if m.mergeGuard != nil || m.cfg.MergeFuncs[short] {
		if env != nil {
			m.unsupported("closure call in merge mode")
		}
		return m.callMerged(fn, args)
	}
	m.callDepth++
	m.curFn = append(m.curFn, fn)
	defer func() {
		m.callDepth--
		m.curFn = m.curFn[:len(m.curFn)-1]
	}()
	fi := m.W.info(fn)
	fr := &frame{fn: fn, fi: fi, locals: make([]Value, fi.n)}
	for i, p := range fn.Params {
		fr.locals[fi.index[p]] = args[i]
	}
	for i, fv := range fn.FreeVars {
		fr.locals[fi.index[fv]] = env[i]
	}
	return m.runFrame(fr)
}

func appendUnique(s []string, x string) []string {
	for _, y := range s {
		if y == x {
			return s
		}
	}
	return append(s, x)
}

func relName(fn *ssa.Function) string {
	s := fn.String()
	s = strings.ReplaceAll(s, "github.com/bolom009/go-clipper2.", "")
	return s
}

func (m *Machine) runFrame(fr *frame) Value {
	var prev *ssa.BasicBlock
	block := fr.fn.Blocks[0]
	for {
		var next *ssa.BasicBlock
		for _, in := range block.Instrs {
			m.steps++
			if m.steps > m.cfg.MaxSteps {
				m.abort(PathBudget, fmt.Sprintf("step budget %d exhausted in %s", m.cfg.MaxSteps, fr.fn.Name()))
			}
			switch x := in.(type) {
			case *ssa.Phi:
				for i, p := range block.Preds {
					if p == prev {
						fr.locals[fr.fi.index[x]] = m.get(fr, x.Edges[i])
						break
					}
				}
			case *ssa.If:
				c := m.get(fr, x.Cond)
				var t bool
				switch cv := c.(type) {
				case bool:
					t = cv
				case *sym.Bool:
					t = m.Branch(cv)
				}
				if m.cfg.TraceIf != nil {
					fmt.Fprintf(m.cfg.TraceIf, "%s b%d %v\n", fr.fn.Name(), block.Index, t)
				}
				if t {
					next = block.Succs[0]
				} else {
					next = block.Succs[1]
				}
			case *ssa.Jump:
				next = block.Succs[0]
			case *ssa.Return:
				switch len(x.Results) {
				case 0:
					return nil
				case 1:
					return m.get(fr, x.Results[0])
				}
				tv := make(TupleV, len(x.Results))
				for i, r := range x.Results {
					tv[i] = m.get(fr, r)
				}
				return tv
			case *ssa.Panic:
				panic(goPanicT{val: m.get(fr, x.X)})
			default:
				m.exec(fr, in)
			}
		}
		if next == nil {
			panic("block without terminator")
		}
		if next.Index <= block.Index { // back edge (approximation: layout order)
			if fr.iters == nil {
				fr.iters = map[*ssa.BasicBlock]int{}
			}
			fr.iters[next]++
			if fr.iters[next] > m.cfg.MaxLoopIter {
				m.abort(PathBudget, fmt.Sprintf("loop bound %d exceeded in %s", m.cfg.MaxLoopIter, fr.fn.Name()))
			}
		}
		prev, block = block, next
	}
}

func (m *Machine) set(fr *frame, v ssa.Value, val Value) {
	fr.locals[fr.fi.index[v]] = val
}

func (m *Machine) exec(fr *frame, in ssa.Instruction) {
	switch x := in.(type) {
	case *ssa.DebugRef:
	case *ssa.UnOp:
		m.set(fr, x, m.unop(x, m.get(fr, x.X)))
	case *ssa.BinOp:
		m.set(fr, x, m.binop(x.Op, x.X.Type(), m.get(fr, x.X), m.get(fr, x.Y), x.Type()))
	case *ssa.Call:
		m.set(fr, x, m.doCall(fr, &x.Call))
	case *ssa.Alloc:
		m.set(fr, x, m.newCell(x.Type().(*types.Pointer).Elem()))
	case *ssa.Store:
		m.store(m.get(fr, x.Addr).(*Cell), m.get(fr, x.Val))
	case *ssa.FieldAddr:
		p := m.get(fr, x.X).(*Cell)
		if p == nil {
			m.goPanic("nil pointer dereference")
		}
		m.set(fr, x, p.Kids[x.Field])
	case *ssa.Field:
		m.set(fr, x, aggValues(m.get(fr, x.X))[x.Field])
	case *ssa.IndexAddr:
		m.set(fr, x, m.indexAddr(fr, x))
	case *ssa.Index:
		agg := m.get(fr, x.X)
		if s, ok := agg.(string); ok {
			i := m.concreteIndex(m.get(fr, x.Index), len(s))
			m.set(fr, x, int64(s[i]))
			break
		}
		vs := aggValues(agg)
		i := m.concreteIndex(m.get(fr, x.Index), len(vs))
		m.set(fr, x, vs[i])
	case *ssa.Slice:
		m.set(fr, x, m.sliceOp(fr, x))
	case *ssa.MakeSlice:
		n := m.concreteInt(m.get(fr, x.Len), "make len")
		c := m.concreteInt(m.get(fr, x.Cap), "make cap")
		if n < 0 || c < n {
			m.goPanic("makeslice: len out of range")
		}
		if c > 1<<20 {
			m.abort(PathBudget, "makeslice too large")
		}
		et := x.Type().Underlying().(*types.Slice).Elem()
		back := make([]*Cell, c)
		for i := range back {
			back[i] = m.newCell(et)
		}
		m.set(fr, x, SliceV{Back: back, Off: 0, Len: int(n), Cap: int(c)})
	case *ssa.Extract:
		m.set(fr, x, m.get(fr, x.Tuple).(TupleV)[x.Index])
	case *ssa.Convert:
		m.set(fr, x, m.convert(x.X.Type(), x.Type(), m.get(fr, x.X)))
	case *ssa.ChangeType:
		m.set(fr, x, m.get(fr, x.X))
	case *ssa.MakeInterface:
		m.set(fr, x, IfaceV{T: x.X.Type(), V: m.get(fr, x.X)})
	case *ssa.ChangeInterface:
		m.set(fr, x, m.get(fr, x.X))
	case *ssa.MakeClosure:
		env := make([]Value, len(x.Bindings))
		for i, b := range x.Bindings {
			env[i] = m.get(fr, b)
		}
		m.set(fr, x, &Closure{Fn: x.Fn.(*ssa.Function), Env: env})
	case *ssa.TypeAssert:
		m.set(fr, x, m.typeAssert(x, m.get(fr, x.X)))
	case *ssa.SliceToArrayPointer:
		m.unsupported("SliceToArrayPointer")
	case *ssa.Range, *ssa.Next, *ssa.MakeMap, *ssa.MapUpdate, *ssa.Lookup:
		if lk, ok := x.(*ssa.Lookup); ok {
			if s, ok := m.get(fr, lk.X).(string); ok {
				i := m.concreteIndex(m.get(fr, lk.Index), len(s))
				m.set(fr, lk, int64(s[i]))
				return
			}
		}
		m.monitorEvent("nondeterminism-source", fmt.Sprintf("%T", x))
		m.unsupported(fmt.Sprintf("%T", x))
	case *ssa.Go, *ssa.Select, *ssa.Send, *ssa.MakeChan:
		m.monitorEvent("nondeterminism-source", fmt.Sprintf("%T", x))
		m.unsupported(fmt.Sprintf("%T", x))
	case *ssa.Defer, *ssa.RunDefers:
		if _, ok := x.(*ssa.RunDefers); ok {
			return
		}
		m.unsupported("defer")
	default:
		m.unsupported(fmt.Sprintf("instruction %T", in))
	}
}

func (m *Machine) typeAssert(x *ssa.TypeAssert, v Value) Value {
	iv := v.(IfaceV)
	ok := iv.T != nil && types.Identical(iv.T, x.AssertedType)
	if _, isIface := x.AssertedType.Underlying().(*types.Interface); isIface {
		ok = iv.T != nil
		if x.CommaOk {
			return TupleV{iv, ok}
		}
		if !ok {
			m.goPanic("interface conversion: nil")
		}
		return iv
	}
	if x.CommaOk {
		if ok {
			return TupleV{iv.V, true}
		}
		return TupleV{m.zero(x.AssertedType), false}
	}
	if !ok {
		m.goPanic("interface conversion: wrong type")
	}
	return iv.V
}

func (m *Machine) concreteInt(v Value, what string) int64 {
	switch x := v.(type) {
	case int64:
		return x
	case *sym.Lin:
		return m.Concretize(x, what)
	}
	panic(fmt.Sprintf("concreteInt: %T", v))
}

// concreteIndex returns a concrete, bounds-checked index.
func (m *Machine) concreteIndex(v Value, n int) int {
	switch x := v.(type) {
	case int64:
		if x < 0 || x >= int64(n) {
			m.goPanic(fmt.Sprintf("index out of range [%d] with length %d", x, n))
		}
		return int(x)
	case *sym.Lin:
		// out of range?
		inRange := m.ctx.And(m.ctx.Le(m.ctx.ConstI(0), x), m.ctx.Le(x, m.ctx.ConstI(int64(n-1))))
		if n == 0 || !m.Branch(inRange) {
			m.goPanic(fmt.Sprintf("index out of range [symbolic] with length %d", n))
		}
		return int(m.Concretize(x, "index"))
	}
	panic(fmt.Sprintf("concreteIndex: %T", v))
}

func (m *Machine) indexAddr(fr *frame, x *ssa.IndexAddr) Value {
	base := m.get(fr, x.X)
	switch b := base.(type) {
	case *Cell: // pointer to array
		if b == nil {
			m.goPanic("nil pointer dereference")
		}
		i := m.concreteIndex(m.get(fr, x.Index), len(b.Kids))
		return b.Kids[i]
	case SliceV:
		i := m.concreteIndex(m.get(fr, x.Index), b.Len)
		return b.Back[b.Off+i]
	}
	panic(fmt.Sprintf("indexAddr base %T", base))
}

func (m *Machine) sliceOp(fr *frame, x *ssa.Slice) Value {
	base := m.get(fr, x.X)
	var lo, hi, max int64 = 0, -1, -1
	if x.Low != nil {
		lo = m.concreteInt(m.get(fr, x.Low), "slice low")
	}
	if x.High != nil {
		hi = m.concreteInt(m.get(fr, x.High), "slice high")
	}
	if x.Max != nil {
		max = m.concreteInt(m.get(fr, x.Max), "slice max")
	}
	switch b := base.(type) {
	case string:
		if hi < 0 {
			hi = int64(len(b))
		}
		if lo < 0 || hi > int64(len(b)) || lo > hi {
			m.goPanic("slice bounds out of range")
		}
		return b[lo:hi]
	case *Cell:
		if b == nil {
			m.goPanic("nil pointer dereference")
		}
		n := int64(len(b.Kids))
		if hi < 0 {
			hi = n
		}
		if max < 0 {
			max = n
		}
		if lo < 0 || hi > max || lo > hi || max > n {
			m.goPanic(fmt.Sprintf("slice bounds out of range [%d:%d:%d] with capacity %d", lo, hi, max, n))
		}
		return SliceV{Back: b.Kids, Off: int(lo), Len: int(hi - lo), Cap: int(max - lo)}
	case SliceV:
		if hi < 0 {
			hi = int64(b.Len)
		}
		if max < 0 {
			max = int64(b.Cap)
		}
		if lo < 0 || hi > max || lo > hi || max > int64(b.Cap) {
			m.goPanic(fmt.Sprintf("slice bounds out of range [%d:%d] with capacity %d", lo, hi, b.Cap))
		}
		if b.Back == nil {
			return SliceV{}
		}
		return SliceV{Back: b.Back, Off: b.Off + int(lo), Len: int(hi - lo), Cap: int(max - lo)}
	}
	panic(fmt.Sprintf("sliceOp base %T", base))
}

func (m *Machine) doCall(fr *frame, c *ssa.CallCommon) Value {
	args := make([]Value, 0, len(c.Args)+1)
	if c.IsInvoke() {
		recv := m.get(fr, c.Value)
		iv, ok := recv.(IfaceV)
		if !ok || iv.T == nil {
			m.goPanic("nil interface method call")
		}
		if e, ok := iv.V.(*ErrObj); ok && c.Method.Name() == "Error" {
			return e.Msg
		}
		fn := m.W.Prog.LookupMethod(iv.T, c.Method.Pkg(), c.Method.Name())
		if fn == nil {
			m.unsupported("method lookup " + c.Method.Name())
		}
		args = append(args, iv.V)
		for _, a := range c.Args {
			args = append(args, m.get(fr, a))
		}
		return m.call(fn, args)
	}
	for _, a := range c.Args {
		args = append(args, m.get(fr, a))
	}
	fv := m.get(fr, c.Value)
	return m.callValue(fv, args, c)
}

func (m *Machine) callValue(fv Value, args []Value, c *ssa.CallCommon) Value {
	switch f := fv.(type) {
	case *ssa.Function:
		return m.call(f, args)
	case *Closure:
		return m.callClosure(f.Fn, args, f.Env)
	case *ssa.Builtin:
		return m.builtin(f, args, c)
	case *Native:
		return f.Fn(m, args)
	case nil:
		m.goPanic("call of nil function")
	}
	panic(fmt.Sprintf("callValue: %T", fv))
}

func (m *Machine) builtin(b *ssa.Builtin, args []Value, c *ssa.CallCommon) Value {
	switch b.Name() {
	case "len":
		switch x := args[0].(type) {
		case SliceV:
			return int64(x.Len)
		case string:
			return int64(len(x))
		case StructV:
			return int64(len(x))
		case ArrayV:
			return int64(len(x))
		case *Cell:
			return int64(len(x.Kids))
		}
	case "cap":
		switch x := args[0].(type) {
		case SliceV:
			return int64(x.Cap)
		case *Cell:
			return int64(len(x.Kids))
		}
	case "append":
		return m.appendOp(args[0].(SliceV), args[1], c.Args[0].Type())
	case "copy":
		dst := args[0].(SliceV)
		n := dst.Len
		if s, ok := args[1].(string); ok {
			if len(s) < n {
				n = len(s)
			}
			for i := 0; i < n; i++ {
				m.store(dst.Back[dst.Off+i], int64(s[i]))
			}
			return int64(n)
		}
		src := args[1].(SliceV)
		if src.Len < n {
			n = src.Len
		}
		// memmove semantics
		tmp := make([]Value, n)
		for i := 0; i < n; i++ {
			tmp[i] = loadCell(src.Back[src.Off+i])
		}
		for i := 0; i < n; i++ {
			m.store(dst.Back[dst.Off+i], tmp[i])
		}
		return int64(n)
	case "min", "max":
		return m.minmax(b.Name(), args, c)
	case "print", "println":
		return nil
	case "ssa:wrapnilchk":
		if isNilPtr(args[0]) {
			m.goPanic("value method called using nil pointer")
		}
		return args[0]
	case "panic":
		panic(goPanicT{val: args[0]})
	}
	m.unsupported("builtin " + b.Name())
	return nil
}

func (m *Machine) minmax(name string, args []Value, c *ssa.CallCommon) Value {
	t := c.Args[0].Type()
	res := args[0]
	for _, a := range args[1:] {
		var op token.Token = token.LSS
		if name == "max" {
			op = token.GTR
		}
		cond := m.binop(op, t, a, res, types.Typ[types.Bool])
		res = m.selectValue(cond, a, res, t)
	}
	return res
}

// selectValue returns cond ? a : b without forking for scalars.
func (m *Machine) selectValue(cond Value, a, b Value, t types.Type) Value {
	switch cv := cond.(type) {
	case bool:
		if cv {
			return a
		}
		return b
	case *sym.Bool:
		if k, ok := basicIntKind(t); ok {
			return m.intVal(m.ctx.Ite(cv, m.lin(a, k), m.lin(b, k)), k)
		}
		if isFloatType(t) {
			return m.fIte(cv, a, b)
		}
		if bt, ok := t.Underlying().(*types.Basic); ok && bt.Info()&types.IsBoolean != 0 {
			return m.boolVal(m.ctx.BIte(cv, m.boolTerm(a), m.boolTerm(b)))
		}
		if m.Branch(cv) {
			return a
		}
		return b
	}
	panic("selectValue")
}

// appendOp implements append(s, t...) following Go's in-place-if-capacity
// rule; growth doubles the capacity (size-class rounding is not modelled).
func (m *Machine) appendOp(s SliceV, tv Value, st types.Type) Value {
	var add []Value
	switch t := tv.(type) {
	case SliceV:
		for i := 0; i < t.Len; i++ {
			add = append(add, loadCell(t.Back[t.Off+i]))
		}
	case string:
		for i := 0; i < len(t); i++ {
			add = append(add, int64(t[i]))
		}
	default:
		panic(fmt.Sprintf("append arg %T", tv))
	}
	if len(add) == 0 {
		return s
	}
	need := s.Len + len(add)
	if need <= s.Cap {
		for i, v := range add {
			m.store(s.Back[s.Off+s.Len+i], v)
		}
		return SliceV{Back: s.Back, Off: s.Off, Len: need, Cap: s.Cap}
	}
	newCap := s.Cap * 2
	if newCap < need {
		newCap = need
	}
	if newCap < 4 {
		newCap = 4
	}
	et := st.Underlying().(*types.Slice).Elem()
	back := make([]*Cell, newCap)
	for i := range back {
		back[i] = m.newCell(et)
	}
	for i := 0; i < s.Len; i++ {
		m.storeCell(back[i], loadCell(s.Back[s.Off+i]))
	}
	for i, v := range add {
		m.storeCell(back[s.Len+i], v)
	}
	return SliceV{Back: back, Off: 0, Len: need, Cap: newCap}
}
