package exec

import (
	"fmt"
	"go/token"
	"math"
	"math/big"

	"gosymx/sym"
)

var two53 = sym.Pow2(53)
var negTwo53 = new(big.Rat).Neg(sym.Pow2(53))
var ulpHalf = new(big.Rat).Inv(sym.Pow2(53)) // 2^-53: relative half-ulp bound

func ratOfFloat(f float64) *big.Rat {
	r := new(big.Rat)
	if r.SetFloat64(f) == nil {
		return nil
	}
	return r
}

func maxAbs(l *sym.Lin) *big.Rat {
	if l.Lo == nil || l.Hi == nil {
		return nil
	}
	a := new(big.Rat).Abs(l.Lo)
	b := new(big.Rat).Abs(l.Hi)
	if b.Cmp(a) > 0 {
		return b
	}
	return a
}

func within53(l *sym.Lin) bool {
	return l.Lo != nil && l.Hi != nil && l.Lo.Cmp(negTwo53) >= 0 && l.Hi.Cmp(two53) <= 0
}

// fl converts a float Value to its real-sorted Lin (finite values only).
func (m *Machine) fl(v Value) *sym.Lin {
	switch x := v.(type) {
	case float64:
		r := ratOfFloat(x)
		if r == nil {
			m.unsupported("non-finite float in symbolic arithmetic")
		}
		return m.ctx.Const(sym.SReal, r)
	case *FSym:
		return x.L
	}
	panic(fmt.Sprintf("fl: %T", v))
}

// fval folds constants back to concrete floats when exact.
func (m *Machine) fval(l *sym.Lin, exact bool) Value {
	if l.IsConst() {
		f, ex := l.C.Float64()
		if ex {
			return f
		}
		// constant but not representable: it must be rounded; do so exactly
		return f
	}
	return &FSym{L: m.ctx.ToReal(l), Exact: exact}
}

// relBracket adds the relative-error bracket of one IEEE rounding of the real
// value l into r: |r - l| <= 2^-53 |l| (no result is assumed subnormal), which
// is linear once the sign of l is split, plus the redundant sign facts that
// keep products compared with zero linear.
func (m *Machine) relBracket(l, r *sym.Lin) {
	c := m.ctx
	lo := c.Scale(l, oneMinusU)
	hi := c.Scale(l, onePlusU)
	z := c.Const(sym.SReal, new(big.Rat))
	pos := c.AndN([]*sym.Bool{c.Le(z, l), c.Le(lo, r), c.Le(r, hi)})
	neg := c.AndN([]*sym.Bool{c.Le(l, z), c.Le(hi, r), c.Le(r, lo)})
	c.Side = append(c.Side, c.Or(pos, neg),
		c.Or(c.Not(c.Lt(z, l)), c.Lt(z, r)),
		c.Or(c.Not(c.Lt(l, z)), c.Lt(r, z)),
		c.Or(c.Not(c.Eq0(l)), c.Eq0(r)))
}

var oneMinusU = new(big.Rat).Sub(sym.R(1), ulpHalf)
var onePlusU = new(big.Rat).Add(sym.R(1), ulpHalf)

func widen(lo, hi *big.Rat) (*big.Rat, *big.Rat) {
	w := func(x *big.Rat, up bool) *big.Rat {
		if (x.Sign() >= 0) == up {
			return new(big.Rat).Mul(x, onePlusU)
		}
		return new(big.Rat).Mul(x, oneMinusU)
	}
	return w(lo, false), w(hi, true)
}

// roundF models one IEEE rounding of the real value l.
func (m *Machine) roundF(l *sym.Lin) Value {
	l = m.ctx.ToReal(l)
	if l.IsConst() {
		f, _ := l.C.Float64()
		return f
	}
	if l.IntegerValued() && within53(l) {
		return &FSym{L: l, Exact: true}
	}
	var lo, hi *big.Rat
	if l.Lo != nil && l.Hi != nil {
		lo, hi = widen(l.Lo, l.Hi)
	}
	r := m.FreshReal("fr", lo, hi)
	m.relBracket(l, r)
	m.res.Approx = true
	m.nRound++
	return &FSym{L: r, Exact: false}
}

func (m *Machine) intToFloat(x *sym.Lin) Value {
	if within53(x) {
		return &FSym{L: m.ctx.ToReal(x), Exact: true}
	}
	if x.Lo == nil || x.Hi == nil {
		m.unsupported("int->float of unbounded term")
	}
	c := m.ctx
	xr := c.ToReal(x)
	lo, hi := widen(x.Lo, x.Hi)
	r := m.FreshReal("fi", lo, hi)
	m.relBracket(xr, r)
	one := c.ConstI(1)
	mone := c.ConstI(-1)
	rone := c.Const(sym.SReal, sym.R(1))
	rmone := c.Const(sym.SReal, sym.R(-1))
	inExact := c.And(c.Le(c.Const(sym.SInt, negTwo53), x), c.Le(x, c.Const(sym.SInt, two53)))
	c.Side = append(c.Side,
		// rounding is monotone and -1, 1 are representable
		c.Or(c.Not(c.Le(one, x)), c.Le(rone, r)),
		c.Or(c.Not(c.Le(x, mone)), c.Le(r, rmone)),
		// exact within 2^53
		c.Or(c.Not(inExact), c.Eq(r, xr)),
	)
	m.res.Approx = true
	m.nRound++
	return &FSym{L: r, Exact: false}
}

func (m *Machine) floatToInt(f *FSym, k intKind) Value {
	l := m.ctx.Round(sym.ATrunc, f.L)
	if l.Lo != nil && l.Hi != nil && l.Lo.Cmp(k.min()) >= 0 && l.Hi.Cmp(k.max()) <= 0 {
		return m.intVal(l, k)
	}
	c := m.ctx
	in := c.And(c.Le(c.Const(sym.SInt, k.min()), l), c.Le(l, c.Const(sym.SInt, k.max())))
	if m.Branch(in) {
		return m.intVal(l, k)
	}
	if k.signed && k.bits == 64 {
		return int64(math.MinInt64)
	}
	m.unsupported("float->int out of range (implementation-defined)")
	return nil
}

func isSpecial(v Value) (float64, bool) {
	f, ok := v.(float64)
	if ok && (math.IsInf(f, 0) || math.IsNaN(f)) {
		return f, true
	}
	return 0, false
}

func isPow2Float(f float64) bool {
	if f == 0 || math.IsInf(f, 0) || math.IsNaN(f) {
		return false
	}
	fr, _ := math.Frexp(math.Abs(f))
	return fr == 0.5
}

func (m *Machine) floatBinop(op token.Token, x, y Value) Value {
	xc, xok := x.(float64)
	yc, yok := y.(float64)
	if xok && yok {
		switch op {
		case token.ADD:
			return xc + yc
		case token.SUB:
			return xc - yc
		case token.MUL:
			return xc * yc
		case token.QUO:
			return xc / yc
		case token.EQL:
			return xc == yc
		case token.NEQ:
			return xc != yc
		case token.LSS:
			return xc < yc
		case token.LEQ:
			return xc <= yc
		case token.GTR:
			return xc > yc
		case token.GEQ:
			return xc >= yc
		}
		m.unsupported("float op " + op.String())
	}
	// one side symbolic (finite); the other may be a special constant
	if sp, ok := isSpecial(x); ok {
		return m.floatSpecial(op, sp, true, y)
	}
	if sp, ok := isSpecial(y); ok {
		return m.floatSpecial(op, sp, false, x)
	}
	c := m.ctx
	xl, yl := m.fl(x), m.fl(y)
	switch op {
	case token.ADD, token.SUB:
		if xok && xc == 0 {
			if op == token.ADD {
				return y
			}
			return &FSym{L: c.Neg(yl), Exact: y.(*FSym).Exact}
		}
		if yok && yc == 0 {
			return x
		}
		var l *sym.Lin
		if op == token.ADD {
			l = c.Add(xl, yl)
		} else {
			l = c.Sub(xl, yl)
		}
		return m.roundF(l)
	case token.MUL:
		if xok || yok {
			cf, s := xc, y
			if yok {
				cf, s = yc, x
			}
			if cf == 0 {
				return float64(0) // sign of zero ignored
			}
			l := c.Scale(m.fl(s), ratOfFloat(cf))
			if isPow2Float(cf) {
				return &FSym{L: l, Exact: s.(*FSym).Exact}
			}
			return m.roundF(l)
		}
		return m.roundF(c.Mul(xl, yl))
	case token.QUO:
		if yok {
			if yc == 0 {
				return m.divByZero(xl)
			}
			l := c.Scale(xl, new(big.Rat).Inv(ratOfFloat(yc)))
			if isPow2Float(yc) {
				return &FSym{L: l, Exact: x.(*FSym).Exact}
			}
			return m.roundF(l)
		}
		if m.Branch(c.Eq0(yl)) {
			return m.divByZero(xl)
		}
		if xl.IsConst() && xl.C.Sign() == 0 {
			return float64(0)
		}
		return m.roundF(c.RDiv(xl, yl))
	case token.EQL:
		return m.boolVal(c.Eq(xl, yl))
	case token.NEQ:
		return m.boolVal(c.Not(c.Eq(xl, yl)))
	case token.LSS:
		return m.boolVal(c.Lt(xl, yl))
	case token.LEQ:
		return m.boolVal(c.Le(xl, yl))
	case token.GTR:
		return m.boolVal(c.Lt(yl, xl))
	case token.GEQ:
		return m.boolVal(c.Le(yl, xl))
	}
	m.unsupported("float binop " + op.String())
	return nil
}

func (m *Machine) divByZero(num *sym.Lin) Value {
	c := m.ctx
	z := c.Const(sym.SReal, new(big.Rat))
	if m.Branch(c.Lt(z, num)) {
		return math.Inf(1)
	}
	if m.Branch(c.Lt(num, z)) {
		return math.Inf(-1)
	}
	return math.NaN()
}

// floatSpecial: op between a special constant (left if spLeft) and a finite
// symbolic value.
func (m *Machine) floatSpecial(op token.Token, sp float64, spLeft bool, other Value) Value {
	if math.IsNaN(sp) {
		switch op {
		case token.EQL, token.LSS, token.LEQ, token.GTR, token.GEQ:
			return false
		case token.NEQ:
			return true
		}
		return math.NaN()
	}
	pos := sp > 0
	switch op {
	case token.EQL:
		return false
	case token.NEQ:
		return true
	case token.LSS, token.LEQ:
		// sp < other ?   (-Inf < x true; +Inf < x false)
		if spLeft {
			return !pos
		}
		return pos
	case token.GTR, token.GEQ:
		if spLeft {
			return pos
		}
		return !pos
	case token.ADD:
		return sp
	case token.SUB:
		if spLeft {
			return sp
		}
		return -sp
	case token.QUO:
		if !spLeft {
			return float64(0) // finite / inf (sign of zero ignored)
		}
	}
	// inf * x, inf / x: sign of x matters
	ol := m.fl(other)
	c := m.ctx
	z := c.Const(sym.SReal, new(big.Rat))
	if m.Branch(c.Lt(z, ol)) {
		return sp
	}
	if m.Branch(c.Lt(ol, z)) {
		return -sp
	}
	if op == token.QUO {
		return sp // inf/0 = inf (sign of zero ignored)
	}
	return math.NaN()
}

func (m *Machine) fIte(cond *sym.Bool, a, b Value) Value {
	if _, ok := isSpecial(a); ok {
		if m.Branch(cond) {
			return a
		}
		return b
	}
	if _, ok := isSpecial(b); ok {
		if m.Branch(cond) {
			return a
		}
		return b
	}
	return m.fval(m.ctx.Ite(cond, m.fl(a), m.fl(b)), false)
}
