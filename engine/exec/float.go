package exec

import (
	"fmt"
	"go/token"
	"math"
	"math/big"

	"gosymx/sym"
)

// Float model. A symbolic float64 (always finite) is described by an exact
// real "ideal" term T and a relative error bound Rho: float = T*(1+d) with
// |d| <= Rho < 1 (Rho = 0: the float is exactly T). Products, quotients,
// scalings, negation and abs compose (T, Rho) without introducing solver
// variables; sign and zero-ness of the float are those of T. Only sums,
// differences and value comparisons materialise the float as a fresh real r
// with the linear-after-sign-split bracket |r - T| <= Rho*|T|. No intermediate
// result is assumed subnormal (stated assumption).

var two53 = sym.Pow2(53)
var negTwo53 = new(big.Rat).Neg(sym.Pow2(53))
var ulpHalf = new(big.Rat).Inv(sym.Pow2(53)) // u = 2^-53
var ratOne = sym.R(1)

func ratOfFloat(f float64) *big.Rat {
	r := new(big.Rat)
	if r.SetFloat64(f) == nil {
		return nil
	}
	return r
}

func within53(l *sym.Lin) bool {
	return l.Lo != nil && l.Hi != nil && l.Lo.Cmp(negTwo53) >= 0 && l.Hi.Cmp(two53) <= 0
}

// compose: (1+a)(1+b)(1+u)-1
func rhoMul(a, b *big.Rat, round bool) *big.Rat {
	r := new(big.Rat).Mul(new(big.Rat).Add(ratOne, a), new(big.Rat).Add(ratOne, b))
	if round {
		r.Mul(r, new(big.Rat).Add(ratOne, ulpHalf))
	}
	return r.Sub(r, ratOne)
}

// (1+a)(1+u)/(1-b) - 1
func rhoDiv(a, b *big.Rat) *big.Rat {
	r := new(big.Rat).Mul(new(big.Rat).Add(ratOne, a), new(big.Rat).Add(ratOne, ulpHalf))
	r.Quo(r, new(big.Rat).Sub(ratOne, b))
	return r.Sub(r, ratOne)
}

// Operation keys. Two floats with the same key are the same float64: the key
// records the IEEE operation sequence over exact leaves, normalised by the
// identities that hold bitwise in round-to-nearest (negation commutes with
// every operation, + and * are commutative). neg is kept apart from the base
// key so that x and -x share one materialised variable.
func (m *Machine) opParts(v Value) (neg bool, base string) {
	switch x := v.(type) {
	case float64:
		return x < 0, fmt.Sprintf("c%x", math.Float64bits(math.Abs(x)))
	case *FSym:
		if x.op != "" {
			return x.neg, x.op
		}
		t := x.T
		if x.l != nil {
			t = x.l
		} else if x.Rho.Sign() != 0 {
			return false, ""
		}
		if len(t.Ts) > 0 && t.Ts[0].K.Sign() < 0 {
			return true, "x:" + m.ctx.Neg(t).Key()
		}
		return false, "x:" + t.Key()
	}
	return false, ""
}

func (m *Machine) opKey2(name string, x, y Value) (bool, string) {
	nx, bx := m.opParts(x)
	ny, by := m.opParts(y)
	if bx == "" || by == "" {
		return false, ""
	}
	switch name {
	case "mul":
		if bx > by {
			bx, by = by, bx
		}
		return nx != ny, "mul(" + bx + "," + by + ")"
	case "div":
		return nx != ny, "div(" + bx + "," + by + ")"
	case "sub":
		ny = !ny
		fallthrough
	case "add":
		if bx > by {
			bx, by, nx, ny = by, bx, ny, nx
		}
		sign := "+"
		if nx != ny {
			sign = "-"
		}
		return nx, "add(" + bx + sign + by + ")"
	}
	return false, ""
}

func (m *Machine) withOp(v Value, name string, x, y Value) Value {
	if f, ok := v.(*FSym); ok && f.op == "" && f.Rho.Sign() != 0 {
		f.neg, f.op = m.opKey2(name, x, y)
	}
	return v
}

func (m *Machine) exactF(l *sym.Lin) *FSym {
	l = m.ctx.ToReal(l)
	return &FSym{T: l, Rho: new(big.Rat), l: l, Exact: true}
}

// mkF builds a float from an ideal term and a relative error bound.
func (m *Machine) mkF(t *sym.Lin, rho *big.Rat) Value {
	t = m.ctx.ToReal(t)
	if t.IsConst() && rho.Sign() == 0 {
		f, _ := t.C.Float64()
		return f
	}
	if t.IsConst() && t.C.Sign() == 0 {
		return float64(0)
	}
	if rho.Sign() == 0 {
		return m.exactF(t)
	}
	return &FSym{T: t, Rho: rho}
}

// roundOnce: the float nearest to the exact real t.
func (m *Machine) roundOnce(t *sym.Lin) Value {
	t = m.ctx.ToReal(t)
	if t.IsConst() {
		f, _ := t.C.Float64()
		return f
	}
	if t.IntegerValued() && within53(t) {
		return m.exactF(t)
	}
	return &FSym{T: t, Rho: ulpHalf}
}

// tOf returns the ideal term and error bound of a finite float value.
func (m *Machine) tOf(v Value) (*sym.Lin, *big.Rat) {
	switch x := v.(type) {
	case float64:
		r := ratOfFloat(x)
		if r == nil {
			m.unsupported("non-finite float in symbolic arithmetic")
		}
		return m.ctx.Const(sym.SReal, r), new(big.Rat)
	case *FSym:
		return x.T, x.Rho
	}
	panic(fmt.Sprintf("tOf: %T", v))
}

// fl returns the value term of a finite float, materialising it if needed.
func (m *Machine) fl(v Value) *sym.Lin {
	switch x := v.(type) {
	case float64:
		r := ratOfFloat(x)
		if r == nil {
			m.unsupported("non-finite float in symbolic arithmetic")
		}
		return m.ctx.Const(sym.SReal, r)
	case *FSym:
		return m.val(x)
	}
	panic(fmt.Sprintf("fl: %T", v))
}

// fval: a float that is exactly the real term l (used by stubs).
func (m *Machine) fval(l *sym.Lin, exact bool) Value {
	return m.mkF(l, new(big.Rat))
}

func widen(lo, hi, rho *big.Rat) (*big.Rat, *big.Rat) {
	up := new(big.Rat).Add(ratOne, rho)
	dn := new(big.Rat).Sub(ratOne, rho)
	w := func(x *big.Rat, toward bool) *big.Rat {
		if (x.Sign() >= 0) == toward {
			return new(big.Rat).Mul(x, up)
		}
		return new(big.Rat).Mul(x, dn)
	}
	return w(lo, false), w(hi, true)
}

// val materialises the value term of f.
func (m *Machine) val(f *FSym) *sym.Lin {
	if f.l != nil {
		return f.l
	}
	if f.Rho.Sign() == 0 {
		f.l = f.T
		return f.l
	}
	t := f.T
	if f.op != "" {
		if r, ok := m.fmemo[f.op]; ok {
			if f.neg {
				r = m.ctx.Neg(r)
			}
			f.l = r
			return r
		}
	}
	var lo, hi *big.Rat
	if t.Lo != nil && t.Hi != nil {
		lo, hi = widen(t.Lo, t.Hi, f.Rho)
	}
	r := m.FreshReal("fr", lo, hi)
	if f.op != "" {
		if m.fmemo == nil {
			m.fmemo = map[string]*sym.Lin{}
		}
		if f.neg {
			m.fmemo[f.op] = m.ctx.Neg(r)
		} else {
			m.fmemo[f.op] = r
		}
	}
	c := m.ctx
	a := c.Scale(t, new(big.Rat).Sub(ratOne, f.Rho))
	b := c.Scale(t, new(big.Rat).Add(ratOne, f.Rho))
	z := c.Const(sym.SReal, new(big.Rat))
	pos := c.AndN([]*sym.Bool{c.Le(z, t), c.Le(a, r), c.Le(r, b)})
	neg := c.AndN([]*sym.Bool{c.Le(t, z), c.Le(b, r), c.Le(r, a)})
	c.Side = append(c.Side, c.Or(pos, neg),
		c.Or(c.Not(c.Lt(z, t)), c.Lt(z, r)),
		c.Or(c.Not(c.Lt(t, z)), c.Lt(r, z)),
		c.Or(c.Not(c.Eq0(t)), c.Eq0(r)))
	if f.intConv != nil {
		x := f.intConv
		one, mone := c.ConstI(1), c.ConstI(-1)
		rone, rmone := c.Const(sym.SReal, sym.R(1)), c.Const(sym.SReal, sym.R(-1))
		inExact := c.And(c.Le(c.Const(sym.SInt, negTwo53), x), c.Le(x, c.Const(sym.SInt, two53)))
		c.Side = append(c.Side,
			c.Or(c.Not(c.Le(one, x)), c.Le(rone, r)),
			c.Or(c.Not(c.Le(x, mone)), c.Le(r, rmone)),
			c.Or(c.Not(inExact), c.Eq(r, c.ToReal(x))))
	}
	m.res.Approx = true
	m.nRound++
	m.res.Funcs["<float materialised in "+m.where()+">"]++
	f.l = r
	return r
}

func (m *Machine) intToFloat(x *sym.Lin) Value {
	if within53(x) {
		return m.exactF(x)
	}
	if len(x.Ts) > 0 && x.Ts[0].K.Sign() < 0 {
		// float64(-y) == -float64(y): share the variable with the positive form
		pos := m.intToFloat(m.ctx.Neg(x)).(*FSym)
		return m.fneg(pos)
	}
	return &FSym{T: m.ctx.ToReal(x), Rho: ulpHalf, intConv: x, op: "conv(" + x.Key() + ")"}
}

func (m *Machine) floatToInt(f *FSym, k intKind) Value {
	l := m.ctx.Round(sym.ATrunc, m.val(f))
	if l.Lo != nil && l.Hi != nil && l.Lo.Cmp(k.min()) >= 0 && l.Hi.Cmp(k.max()) <= 0 {
		return m.intVal(l, k)
	}
	c := m.ctx
	in := c.And(c.Le(c.Const(sym.SInt, k.min()), l), c.Le(l, c.Const(sym.SInt, k.max())))
	if m.Branch(in) {
		return m.intVal(l, k)
	}
	if k.signed && k.bits == 64 {
		return int64(math.MinInt64)
	}
	m.unsupported("float->int out of range (implementation-defined)")
	return nil
}

func isSpecial(v Value) (float64, bool) {
	f, ok := v.(float64)
	if ok && (math.IsInf(f, 0) || math.IsNaN(f)) {
		return f, true
	}
	return 0, false
}

func isPow2Float(f float64) bool {
	if f == 0 || math.IsInf(f, 0) || math.IsNaN(f) {
		return false
	}
	fr, _ := math.Frexp(math.Abs(f))
	return fr == 0.5
}

func (m *Machine) floatBinop(op token.Token, x, y Value) Value {
	xc, xok := x.(float64)
	yc, yok := y.(float64)
	if xok && yok {
		switch op {
		case token.ADD:
			return xc + yc
		case token.SUB:
			return xc - yc
		case token.MUL:
			return xc * yc
		case token.QUO:
			return xc / yc
		case token.EQL:
			return xc == yc
		case token.NEQ:
			return xc != yc
		case token.LSS:
			return xc < yc
		case token.LEQ:
			return xc <= yc
		case token.GTR:
			return xc > yc
		case token.GEQ:
			return xc >= yc
		}
		m.unsupported("float op " + op.String())
	}
	// one side symbolic (finite); the other may be a special constant
	if sp, ok := isSpecial(x); ok {
		return m.floatSpecial(op, sp, true, y)
	}
	if sp, ok := isSpecial(y); ok {
		return m.floatSpecial(op, sp, false, x)
	}
	c := m.ctx
	zero := c.Const(sym.SReal, new(big.Rat))
	tx, rx := m.tOf(x)
	ty, ry := m.tOf(y)
	// comparisons against the constant zero only need the sign of T
	if (xok && xc == 0) || (yok && yc == 0) {
		sg := tx
		cmp := op
		if !yok || yc != 0 {
			sg = ty
			switch op {
			case token.LSS:
				cmp = token.GTR
			case token.LEQ:
				cmp = token.GEQ
			case token.GTR:
				cmp = token.LSS
			case token.GEQ:
				cmp = token.LEQ
			}
		}
		switch cmp {
		case token.EQL:
			return m.boolVal(c.Eq0(sg))
		case token.NEQ:
			return m.boolVal(c.Not(c.Eq0(sg)))
		case token.LSS:
			return m.boolVal(c.Lt(sg, zero))
		case token.LEQ:
			return m.boolVal(c.Le(sg, zero))
		case token.GTR:
			return m.boolVal(c.Lt(zero, sg))
		case token.GEQ:
			return m.boolVal(c.Le(zero, sg))
		}
	}
	switch op {
	case token.ADD, token.SUB:
		if xok && xc == 0 {
			if op == token.ADD {
				return y
			}
			return m.fneg(y.(*FSym))
		}
		if yok && yc == 0 {
			return x
		}
		xl, yl := m.fl(x), m.fl(y)
		if op == token.ADD {
			return m.withOp(m.roundOnce(c.Add(xl, yl)), "add", x, y)
		}
		return m.withOp(m.roundOnce(c.Sub(xl, yl)), "sub", x, y)
	case token.MUL:
		if (xok && xc == 0) || (yok && yc == 0) {
			return float64(0) // sign of zero ignored
		}
		t := c.Mul(tx, ty)
		pow2 := (xok && isPow2Float(xc)) || (yok && isPow2Float(yc))
		if rx.Sign() == 0 && ry.Sign() == 0 {
			if pow2 {
				return m.mkF(t, new(big.Rat))
			}
			return m.withOp(m.roundOnce(t), "mul", x, y)
		}
		return m.withOp(m.mkF(t, rhoMul(rx, ry, !pow2)), "mul", x, y)
	case token.QUO:
		if yok {
			if yc == 0 {
				return m.divByZero(tx)
			}
			t := c.Scale(tx, new(big.Rat).Inv(ratOfFloat(yc)))
			if isPow2Float(yc) {
				return m.mkF(t, rx)
			}
			if rx.Sign() == 0 {
				return m.withOp(m.roundOnce(t), "div", x, y)
			}
			return m.withOp(m.mkF(t, rhoMul(rx, new(big.Rat), true)), "div", x, y)
		}
		if m.Branch(c.Eq0(ty)) {
			return m.divByZero(tx)
		}
		if tx.IsConst() && tx.C.Sign() == 0 {
			return float64(0)
		}
		t := c.RDiv(tx, ty)
		if rx.Sign() == 0 && ry.Sign() == 0 {
			return m.withOp(m.roundOnce(t), "div", x, y)
		}
		return m.withOp(m.mkF(t, rhoDiv(rx, ry)), "div", x, y)
	}
	xl, yl := m.fl(x), m.fl(y)
	switch op {
	case token.EQL:
		return m.boolVal(c.Eq(xl, yl))
	case token.NEQ:
		return m.boolVal(c.Not(c.Eq(xl, yl)))
	case token.LSS:
		return m.boolVal(c.Lt(xl, yl))
	case token.LEQ:
		return m.boolVal(c.Le(xl, yl))
	case token.GTR:
		return m.boolVal(c.Lt(yl, xl))
	case token.GEQ:
		return m.boolVal(c.Le(yl, xl))
	}
	m.unsupported("float binop " + op.String())
	return nil
}

func (m *Machine) fneg(f *FSym) Value {
	c := m.ctx
	r := &FSym{T: c.Neg(f.T), Rho: f.Rho, Exact: f.Exact}
	if f.l != nil {
		r.l = c.Neg(f.l)
	} else if f.op != "" {
		r.op, r.neg = f.op, !f.neg
	}
	r.intConv = nil
	return r
}

func (m *Machine) fabs(f *FSym) Value {
	c := m.ctx
	r := &FSym{T: c.Abs(f.T), Rho: f.Rho, Exact: f.Exact}
	if f.l != nil {
		r.l = c.Abs(f.l)
	} else if f.op != "" {
		r.op = "abs(" + f.op + ")"
	}
	return r
}

func (m *Machine) divByZero(num *sym.Lin) Value {
	c := m.ctx
	z := c.Const(sym.SReal, new(big.Rat))
	if m.Branch(c.Lt(z, num)) {
		return math.Inf(1)
	}
	if m.Branch(c.Lt(num, z)) {
		return math.Inf(-1)
	}
	return math.NaN()
}

// floatSpecial: op between a special constant (left if spLeft) and a finite
// symbolic value.
func (m *Machine) floatSpecial(op token.Token, sp float64, spLeft bool, other Value) Value {
	if math.IsNaN(sp) {
		switch op {
		case token.EQL, token.LSS, token.LEQ, token.GTR, token.GEQ:
			return false
		case token.NEQ:
			return true
		}
		return math.NaN()
	}
	pos := sp > 0
	switch op {
	case token.EQL:
		return false
	case token.NEQ:
		return true
	case token.LSS, token.LEQ:
		if spLeft {
			return !pos
		}
		return pos
	case token.GTR, token.GEQ:
		if spLeft {
			return pos
		}
		return !pos
	case token.ADD:
		return sp
	case token.SUB:
		if spLeft {
			return sp
		}
		return -sp
	case token.QUO:
		if !spLeft {
			return float64(0) // finite / inf (sign of zero ignored)
		}
	}
	// inf * x, inf / x: sign of x matters
	ol, _ := m.tOf(other)
	c := m.ctx
	z := c.Const(sym.SReal, new(big.Rat))
	if m.Branch(c.Lt(z, ol)) {
		return sp
	}
	if m.Branch(c.Lt(ol, z)) {
		return -sp
	}
	if op == token.QUO {
		return sp // inf/0 = inf (sign of zero ignored)
	}
	return math.NaN()
}

func (m *Machine) fIte(cond *sym.Bool, a, b Value) Value {
	if _, ok := isSpecial(a); ok {
		if m.Branch(cond) {
			return a
		}
		return b
	}
	if _, ok := isSpecial(b); ok {
		if m.Branch(cond) {
			return a
		}
		return b
	}
	return m.mkF(m.ctx.Ite(cond, m.fl(a), m.fl(b)), new(big.Rat))
}
