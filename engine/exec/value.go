// Package exec is the forking SSA interpreter of gosymx: symbolic scalars over
// a concrete heap.
package exec

import (
	"fmt"
	"go/types"
	"math/big"

	"golang.org/x/tools/go/ssa"

	"gosymx/sym"
)

// Value is one of:
//   int64 (concrete integer of any Go integer type; bit pattern normalised to the type),
//   *sym.Lin (symbolic integer, mathematical value within the type's range),
//   float64, *FSym (symbolic float),
//   bool, *sym.Bool,
//   string, *Cell (pointer), SliceV, StructV, ArrayV, IfaceV, TupleV,
//   *ssa.Function, *ssa.Builtin, *Closure, *Native, nil (only for nil func).
type Value any

// FSym is a symbolic (finite) float64: float = T*(1+d), |d| <= Rho (see
// float.go). l is the materialised value term (nil until needed).
type FSym struct {
	T       *sym.Lin
	Rho     *big.Rat
	l       *sym.Lin
	intConv *sym.Lin // set for int->float conversions beyond 2^53: the integer
	neg     bool     // the float is minus the float described by op
	op      string   // structural key of the float computation: equal keys, equal floats
	Exact   bool
}

type Cell struct {
	V      Value
	Kids   []*Cell
	Frozen bool // caller-owned backing store (C12 monitor)
	Global bool // part of a package-level variable (C18 monitor)
	Tag    string
}

type SliceV struct {
	Back          []*Cell
	Off, Len, Cap int
}

type StructV []Value
type ArrayV []Value
type TupleV []Value

type IfaceV struct {
	T types.Type // nil => nil interface
	V Value
}

type Closure struct {
	Fn  *ssa.Function
	Env []Value
}

type Native struct {
	Name string
	Fn   func(m *Machine, args []Value) Value
}

// ErrObj is the dynamic value behind error interfaces created by stubs.
type ErrObj struct{ Msg string }

func isNilPtr(v Value) bool {
	c, ok := v.(*Cell)
	return ok && c == nil
}

func (m *Machine) zero(t types.Type) Value {
	switch u := t.Underlying().(type) {
	case *types.Basic:
		switch {
		case u.Info()&types.IsBoolean != 0:
			return false
		case u.Info()&types.IsInteger != 0:
			return int64(0)
		case u.Info()&types.IsFloat != 0:
			return float64(0)
		case u.Info()&types.IsString != 0:
			return ""
		case u.Kind() == types.UnsafePointer:
			return (*Cell)(nil)
		case u.Kind() == types.UntypedNil:
			return (*Cell)(nil)
		}
	case *types.Pointer:
		return (*Cell)(nil)
	case *types.Slice:
		return SliceV{}
	case *types.Struct:
		s := make(StructV, u.NumFields())
		for i := range s {
			s[i] = m.zero(u.Field(i).Type())
		}
		return s
	case *types.Array:
		a := make(ArrayV, u.Len())
		for i := range a {
			a[i] = m.zero(u.Elem())
		}
		return a
	case *types.Interface:
		return IfaceV{}
	case *types.Signature:
		return nil
	case *types.Tuple:
		tv := make(TupleV, u.Len())
		for i := range tv {
			tv[i] = m.zero(u.At(i).Type())
		}
		return tv
	case *types.Map, *types.Chan:
		m.unsupported("map/chan type " + t.String())
	}
	m.unsupported("zero of " + t.String())
	return nil
}

func (m *Machine) newCell(t types.Type) *Cell {
	switch u := t.Underlying().(type) {
	case *types.Struct:
		c := &Cell{Kids: make([]*Cell, u.NumFields())}
		for i := range c.Kids {
			c.Kids[i] = m.newCell(u.Field(i).Type())
		}
		return c
	case *types.Array:
		c := &Cell{Kids: make([]*Cell, u.Len())}
		for i := range c.Kids {
			c.Kids[i] = m.newCell(u.Elem())
		}
		return c
	}
	return &Cell{V: m.zero(t)}
}

func (m *Machine) load(c *Cell) Value {
	if c == nil {
		m.goPanic("nil pointer dereference")
	}
	return loadCell(c)
}

func loadCell(c *Cell) Value {
	if c.Kids != nil {
		// struct or array: we cannot tell which from the cell; both are
		// represented positionally. Use StructV for both on load and convert
		// on demand (ArrayV and StructV are interchangeable positionally).
		s := make(StructV, len(c.Kids))
		for i, k := range c.Kids {
			s[i] = loadCell(k)
		}
		return s
	}
	return c.V
}

func (m *Machine) store(c *Cell, v Value) {
	if c == nil {
		m.goPanic("nil pointer dereference")
	}
	m.storeCell(c, v)
}

func (m *Machine) storeCell(c *Cell, v Value) {
	if c.Kids != nil {
		var vs []Value
		switch x := v.(type) {
		case StructV:
			vs = x
		case ArrayV:
			vs = x
		default:
			panic(fmt.Sprintf("store: aggregate cell, scalar value %T", v))
		}
		for i, k := range c.Kids {
			m.storeCell(k, vs[i])
		}
		return
	}
	if c.Frozen {
		m.monitorEvent("caller-slice-write", c.Tag)
	}
	if c.Global && m.initDone {
		m.monitorEvent("global-write", c.Tag)
	}
	c.V = v
}

func aggValues(v Value) []Value {
	switch x := v.(type) {
	case StructV:
		return x
	case ArrayV:
		return x
	}
	panic(fmt.Sprintf("aggValues: %T", v))
}

// intKind describes an integer type.
type intKind struct {
	bits   uint
	signed bool
}

func basicIntKind(t types.Type) (intKind, bool) {
	b, ok := t.Underlying().(*types.Basic)
	if !ok {
		return intKind{}, false
	}
	switch b.Kind() {
	case types.Int, types.Int64, types.UntypedInt, types.UntypedRune:
		return intKind{64, true}, true
	case types.Int32:
		return intKind{32, true}, true
	case types.Int16:
		return intKind{16, true}, true
	case types.Int8:
		return intKind{8, true}, true
	case types.Uint, types.Uint64, types.Uintptr:
		return intKind{64, false}, true
	case types.Uint32:
		return intKind{32, false}, true
	case types.Uint16:
		return intKind{16, false}, true
	case types.Uint8:
		return intKind{8, false}, true
	}
	return intKind{}, false
}

func isFloatType(t types.Type) bool {
	b, ok := t.Underlying().(*types.Basic)
	return ok && b.Info()&types.IsFloat != 0
}

// normC normalises a concrete bit pattern to the kind (sign/zero extension).
func (k intKind) normC(v int64) int64 {
	switch k.bits {
	case 64:
		return v
	case 32:
		if k.signed {
			return int64(int32(v))
		}
		return int64(uint32(v))
	case 16:
		if k.signed {
			return int64(int16(v))
		}
		return int64(uint16(v))
	case 8:
		if k.signed {
			return int64(int8(v))
		}
		return int64(uint8(v))
	}
	return v
}

func (k intKind) min() *big.Rat {
	if !k.signed {
		return new(big.Rat)
	}
	return new(big.Rat).Neg(sym.Pow2(k.bits - 1))
}
func (k intKind) max() *big.Rat {
	if !k.signed {
		return new(big.Rat).Sub(sym.Pow2(k.bits), sym.R(1))
	}
	return new(big.Rat).Sub(sym.Pow2(k.bits-1), sym.R(1))
}

// mathValue: the mathematical value of a concrete integer of kind k.
func (k intKind) mathValue(v int64) *big.Rat {
	if !k.signed && k.bits == 64 {
		return new(big.Rat).SetInt(new(big.Int).SetUint64(uint64(v)))
	}
	return sym.R(v)
}

// fromMath converts an in-range mathematical value to the concrete bit pattern.
func (k intKind) fromMath(r *big.Rat) int64 {
	n := r.Num()
	if !k.signed && k.bits == 64 {
		return int64(n.Uint64())
	}
	return n.Int64()
}

// lin converts an integer Value into a Lin.
func (m *Machine) lin(v Value, k intKind) *sym.Lin {
	switch x := v.(type) {
	case int64:
		return m.ctx.Const(sym.SInt, k.mathValue(x))
	case *sym.Lin:
		return x
	}
	panic(fmt.Sprintf("lin: %T", v))
}

// intVal folds a Lin back to a concrete value if constant.
func (m *Machine) intVal(l *sym.Lin, k intKind) Value {
	if l.IsConst() {
		return k.fromMath(l.C)
	}
	return l
}

func (m *Machine) boolTerm(v Value) *sym.Bool {
	switch x := v.(type) {
	case bool:
		return m.ctx.BoolConst(x)
	case *sym.Bool:
		return x
	}
	panic(fmt.Sprintf("boolTerm: %T", v))
}

func (m *Machine) boolVal(b *sym.Bool) Value {
	if b.Kind == sym.BConst {
		return b.Val
	}
	return b
}
