package exec

import (
	"fmt"
	"go/token"
	"go/types"
	"math"
	"math/big"
	"math/bits"

	"golang.org/x/tools/go/ssa"

	"gosymx/smt"
	"gosymx/sym"
)

func (m *Machine) unop(x *ssa.UnOp, v Value) Value {
	switch x.Op {
	case token.MUL: // load
		return m.load(v.(*Cell))
	case token.NOT:
		switch b := v.(type) {
		case bool:
			return !b
		case *sym.Bool:
			return m.boolVal(m.ctx.Not(b))
		}
	case token.SUB:
		if k, ok := basicIntKind(x.Type()); ok {
			switch i := v.(type) {
			case int64:
				return k.normC(-i)
			case *sym.Lin:
				return m.wrap(m.ctx.Neg(i), k)
			}
		}
		switch f := v.(type) {
		case float64:
			return -f
		case *FSym:
			return m.fneg(f)
		}
	case token.XOR:
		if k, ok := basicIntKind(x.Type()); ok {
			switch i := v.(type) {
			case int64:
				return k.normC(^i)
			case *sym.Lin:
				// ^x = -x-1 (signed) or max-x (unsigned)
				if k.signed {
					return m.intVal(m.ctx.Sub(m.ctx.Neg(i), m.ctx.ConstI(1)), k)
				}
				return m.intVal(m.ctx.Sub(m.ctx.Const(sym.SInt, k.max()), i), k)
			}
		}
	}
	m.unsupported(fmt.Sprintf("unop %s on %T", x.Op, v))
	return nil
}

// wrap reduces a mathematical result to kind k, proving no-wrap by intervals
// where possible.
func (m *Machine) wrap(l *sym.Lin, k intKind) Value {
	if l.IsConst() {
		// reduce modulo 2^bits
		return k.fromMath(wrapRat(l.C, k))
	}
	if l.Lo != nil && l.Hi != nil && l.Lo.Cmp(k.min()) >= 0 && l.Hi.Cmp(k.max()) <= 0 {
		return l
	}
	// intervals could not exclude a wrap: ask the solver under the path condition
	if m.mergeGuard == nil {
		c := m.ctx
		out := c.Or(c.Lt(l, c.Const(sym.SInt, k.min())), c.Lt(c.Const(sym.SInt, k.max()), l))
		if m.query(out) == smt.Unsat {
			return l
		}
	}
	m.res.Funcs["<wrap-term in "+m.where()+">"]++
	// explicit wrap: ((l - min) mod 2^bits) + min
	mod := sym.Pow2(k.bits)
	shifted := m.ctx.Sub(l, m.ctx.Const(sym.SInt, k.min()))
	r := m.ctx.Add(m.ctx.ModC(shifted, mod, true), m.ctx.Const(sym.SInt, k.min()))
	return r
}

func wrapRat(r *big.Rat, k intKind) *big.Rat {
	mod := new(big.Int).Lsh(big.NewInt(1), k.bits)
	n := new(big.Int).Set(r.Num())
	min := k.min().Num()
	n.Sub(n, min)
	n.Mod(n, mod) // Euclidean => non-negative
	n.Add(n, min)
	return new(big.Rat).SetInt(n)
}

func (m *Machine) binop(op token.Token, xt types.Type, x, y Value, rt types.Type) Value {
	// pointer / interface / string / bool comparisons first
	switch op {
	case token.EQL, token.NEQ:
		eq, ok := m.equalValues(xt, x, y)
		if ok {
			if op == token.NEQ {
				switch e := eq.(type) {
				case bool:
					return !e
				case *sym.Bool:
					return m.boolVal(m.ctx.Not(e))
				}
			}
			return eq
		}
	}
	if k, ok := basicIntKind(xt); ok {
		return m.intBinop(op, k, x, y, rt)
	}
	if isFloatType(xt) {
		return m.floatBinop(op, x, y)
	}
	if b, ok := xt.Underlying().(*types.Basic); ok && b.Info()&types.IsString != 0 {
		xs, ys := x.(string), y.(string)
		switch op {
		case token.ADD:
			return xs + ys
		case token.LSS:
			return xs < ys
		case token.GTR:
			return xs > ys
		case token.LEQ:
			return xs <= ys
		case token.GEQ:
			return xs >= ys
		}
	}
	if b, ok := xt.Underlying().(*types.Basic); ok && b.Info()&types.IsBoolean != 0 {
		switch op {
		case token.AND, token.LAND:
			return m.boolVal(m.ctx.And(m.boolTerm(x), m.boolTerm(y)))
		case token.OR, token.LOR:
			return m.boolVal(m.ctx.Or(m.boolTerm(x), m.boolTerm(y)))
		}
	}
	m.unsupported(fmt.Sprintf("binop %s on %s", op, xt))
	return nil
}

// equalValues handles == for non-numeric and aggregate types; ok=false means
// "numeric, fall through".
func (m *Machine) equalValues(t types.Type, x, y Value) (Value, bool) {
	switch u := t.Underlying().(type) {
	case *types.Basic:
		switch {
		case u.Info()&types.IsBoolean != 0:
			return m.boolVal(m.ctx.Iff(m.boolTerm(x), m.boolTerm(y))), true
		case u.Info()&types.IsString != 0:
			return x.(string) == y.(string), true
		case u.Kind() == types.UntypedNil:
			return true, true
		}
		return nil, false
	case *types.Pointer:
		return x.(*Cell) == y.(*Cell), true
	case *types.Slice:
		xs, ys := x.(SliceV), y.(SliceV)
		if xs.Back == nil || ys.Back == nil {
			return (xs.Back == nil) == (ys.Back == nil), true
		}
		m.unsupported("slice comparison")
	case *types.Signature:
		return (x == nil) == (y == nil), true
	case *types.Interface:
		xi, yi := x.(IfaceV), y.(IfaceV)
		if xi.T == nil || yi.T == nil {
			return (xi.T == nil) == (yi.T == nil), true
		}
		if !types.Identical(xi.T, yi.T) {
			return false, true
		}
		if xe, ok := xi.V.(*ErrObj); ok {
			return xe == yi.V.(*ErrObj), true
		}
		return m.equalValuesT(xi.T, xi.V, yi.V), true
	case *types.Struct:
		xs, ys := aggValues(x), aggValues(y)
		acc := m.ctx.True
		for i := 0; i < u.NumFields(); i++ {
			e := m.equalValuesT(u.Field(i).Type(), xs[i], ys[i])
			acc = m.ctx.And(acc, m.boolTerm(e))
		}
		return m.boolVal(acc), true
	case *types.Array:
		xs, ys := aggValues(x), aggValues(y)
		acc := m.ctx.True
		for i := range xs {
			e := m.equalValuesT(u.Elem(), xs[i], ys[i])
			acc = m.ctx.And(acc, m.boolTerm(e))
		}
		return m.boolVal(acc), true
	}
	return nil, false
}

func (m *Machine) equalValuesT(t types.Type, x, y Value) Value {
	if v, ok := m.equalValues(t, x, y); ok {
		return v
	}
	return m.binop(token.EQL, t, x, y, types.Typ[types.Bool])
}

func (m *Machine) intBinop(op token.Token, k intKind, x, y Value, rt types.Type) Value {
	xc, xok := x.(int64)
	yc, yok := y.(int64)
	if op == token.SHL || op == token.SHR {
		// shift count may have a different type; we require it concrete
		if !yok {
			m.unsupported("symbolic shift count")
		}
		var cnt uint64 = uint64(yc)
		if yc < 0 {
			m.goPanic("negative shift amount")
		}
		if xok {
			return k.normC(concShift(op, k, xc, cnt))
		}
		xl := x.(*sym.Lin)
		if cnt >= uint64(k.bits) {
			if op == token.SHL || !k.signed {
				return int64(0)
			}
			// arithmetic shift of symbolic by >= width: -1 or 0
			return m.intVal(m.ctx.Ite(m.ctx.Lt(xl, m.ctx.ConstI(0)), m.ctx.ConstI(-1), m.ctx.ConstI(0)), k)
		}
		p := sym.Pow2(uint(cnt))
		if op == token.SHL {
			return m.wrap(m.ctx.Scale(xl, p), k)
		}
		return m.intVal(m.ctx.DivC(xl, p, true), k)
	}
	if xok && yok {
		return m.concIntBinop(op, k, xc, yc)
	}
	xl, yl := m.lin(x, k), m.lin(y, k)
	c := m.ctx
	switch op {
	case token.ADD:
		return m.wrap(c.Add(xl, yl), k)
	case token.SUB:
		return m.wrap(c.Sub(xl, yl), k)
	case token.MUL:
		return m.wrap(c.Mul(xl, yl), k)
	case token.QUO:
		if yl.IsConst() {
			if yl.C.Sign() == 0 {
				m.goPanic("integer divide by zero")
			}
			if yl.C.Sign() > 0 {
				return m.wrap(c.DivC(xl, yl.C, false), k)
			}
			return m.wrap(c.Neg(c.DivC(xl, new(big.Rat).Neg(yl.C), false)), k)
		}
		if m.Branch(c.Eq0(yl)) {
			m.goPanic("integer divide by zero")
		}
		return m.wrap(c.IDiv(xl, yl), k)
	case token.REM:
		if yl.IsConst() {
			if yl.C.Sign() == 0 {
				m.goPanic("integer divide by zero")
			}
			return m.intVal(c.ModC(xl, new(big.Rat).Abs(yl.C), false), k)
		}
		if m.Branch(c.Eq0(yl)) {
			m.goPanic("integer divide by zero")
		}
		q := c.IDiv(xl, yl)
		return m.wrap(c.Sub(xl, c.Mul(q, yl)), k)
	case token.AND:
		return m.bitAnd(xl, yl, k)
	case token.OR:
		return m.bitOr(xl, yl, k)
	case token.XOR, token.AND_NOT:
		m.unsupported("symbolic bit operation " + op.String())
	case token.EQL:
		return m.boolVal(c.Eq(xl, yl))
	case token.NEQ:
		return m.boolVal(c.Not(c.Eq(xl, yl)))
	case token.LSS:
		return m.boolVal(c.Lt(xl, yl))
	case token.LEQ:
		return m.boolVal(c.Le(xl, yl))
	case token.GTR:
		return m.boolVal(c.Lt(yl, xl))
	case token.GEQ:
		return m.boolVal(c.Le(yl, xl))
	}
	m.unsupported("int binop " + op.String())
	return nil
}

func concShift(op token.Token, k intKind, x int64, cnt uint64) int64 {
	if op == token.SHL {
		if cnt >= 64 {
			return 0
		}
		return x << cnt
	}
	if k.signed {
		if cnt >= 64 {
			cnt = 63
		}
		return x >> cnt
	}
	if cnt >= 64 {
		return 0
	}
	return int64(uint64(x) >> cnt)
}

func (m *Machine) concIntBinop(op token.Token, k intKind, x, y int64) Value {
	switch op {
	case token.ADD:
		return k.normC(x + y)
	case token.SUB:
		return k.normC(x - y)
	case token.MUL:
		return k.normC(x * y)
	case token.QUO:
		if y == 0 {
			m.goPanic("integer divide by zero")
		}
		if k.signed {
			if y == -1 {
				return k.normC(-x)
			}
			return k.normC(x / y)
		}
		return k.normC(int64(uint64(x) / uint64(y)))
	case token.REM:
		if y == 0 {
			m.goPanic("integer divide by zero")
		}
		if k.signed {
			if y == -1 {
				return int64(0)
			}
			return k.normC(x % y)
		}
		return k.normC(int64(uint64(x) % uint64(y)))
	case token.AND:
		return x & y
	case token.OR:
		return x | y
	case token.XOR:
		return k.normC(x ^ y)
	case token.AND_NOT:
		return x &^ y
	case token.EQL:
		return x == y
	case token.NEQ:
		return x != y
	}
	var lt, eq bool
	if k.signed {
		lt, eq = x < y, x == y
	} else {
		lt, eq = uint64(x) < uint64(y), x == y
	}
	switch op {
	case token.LSS:
		return lt
	case token.LEQ:
		return lt || eq
	case token.GTR:
		return !lt && !eq
	case token.GEQ:
		return !lt
	}
	m.unsupported("conc int binop " + op.String())
	return nil
}

// bitAnd: symbolic & constant low mask -> mod 2^k (non-negative operands).
func (m *Machine) bitAnd(x, y *sym.Lin, k intKind) Value {
	if x.IsConst() {
		x, y = y, x
	}
	if !y.IsConst() {
		m.unsupported("symbolic & symbolic")
	}
	mask := y.C.Num()
	if mask.Sign() == 0 {
		return int64(0)
	}
	// low mask 2^n - 1 ?
	mp1 := new(big.Int).Add(mask, big.NewInt(1))
	if mask.Sign() > 0 && new(big.Int).And(mp1, mask).Sign() == 0 {
		n := uint(mp1.BitLen() - 1)
		// unsigned values are non-negative; for signed two's complement
		// x & mask == x mod 2^n (floor mod) for any x
		return m.intVal(m.ctx.ModC(x, sym.Pow2(n), true), k)
	}
	// single bit mask 2^n on a non-negative value: ((x >> n) mod 2) << n
	if mask.Sign() > 0 && new(big.Int).And(mask, new(big.Int).Sub(mask, big.NewInt(1))).Sign() == 0 {
		n := uint(mask.BitLen() - 1)
		sh := m.ctx.DivC(x, sym.Pow2(n), true)
		bit := m.ctx.ModC(sh, sym.R(2), true)
		return m.intVal(m.ctx.Scale(bit, sym.Pow2(n)), k)
	}
	m.unsupported("symbolic & non-mask constant")
	return nil
}

// bitOr: only the "disjoint bits" form hi | lo where hi is a syntactic
// multiple of 2^n and 0 <= lo < 2^n.
func (m *Machine) bitOr(x, y *sym.Lin, k intKind) Value {
	try := func(hi, lo *sym.Lin) (Value, bool) {
		if lo.Lo == nil || lo.Hi == nil || lo.Lo.Sign() < 0 {
			return nil, false
		}
		n := uint(lo.Hi.Num().BitLen())
		if !lo.Hi.IsInt() {
			return nil, false
		}
		if m.ctx.Divisible(hi, sym.Pow2(n)) && hi.Lo != nil && hi.Lo.Sign() >= 0 {
			return m.wrap(m.ctx.Add(hi, lo), k), true
		}
		return nil, false
	}
	if v, ok := try(x, y); ok {
		return v
	}
	if v, ok := try(y, x); ok {
		return v
	}
	if x.IsConst() && x.C.Sign() == 0 {
		return m.intVal(y, k)
	}
	if y.IsConst() && y.C.Sign() == 0 {
		return m.intVal(x, k)
	}
	m.unsupported("symbolic | (non-disjoint)")
	return nil
}

// ---------------------------------------------------------------------------
// conversions
// ---------------------------------------------------------------------------

func (m *Machine) convert(from, to types.Type, v Value) Value {
	fk, fromInt := basicIntKind(from)
	tk, toInt := basicIntKind(to)
	switch {
	case fromInt && toInt:
		switch x := v.(type) {
		case int64:
			return tk.normC(x)
		case *sym.Lin:
			_ = fk
			return m.wrap(x, tk)
		}
	case fromInt && isFloatType(to):
		switch x := v.(type) {
		case int64:
			if !fk.signed && fk.bits == 64 {
				return m.roundTo(to, float64(uint64(x)))
			}
			return m.roundTo(to, float64(x))
		case *sym.Lin:
			return m.intToFloat(x)
		}
	case isFloatType(from) && toInt:
		switch x := v.(type) {
		case float64:
			return concFloatToInt(x, tk)
		case *FSym:
			return m.floatToInt(x, tk)
		}
	case isFloatType(from) && isFloatType(to):
		switch x := v.(type) {
		case float64:
			return m.roundTo(to, x)
		case *FSym:
			if to.Underlying().(*types.Basic).Kind() == types.Float32 {
				m.unsupported("symbolic float32")
			}
			return x
		}
	}
	// string conversions etc.
	if tb, ok := to.Underlying().(*types.Basic); ok && tb.Info()&types.IsString != 0 {
		if s, ok := v.(string); ok {
			return s
		}
		if sl, ok := v.(SliceV); ok { // []byte -> string
			b := make([]byte, sl.Len)
			for i := range b {
				c, ok := loadCell(sl.Back[sl.Off+i]).(int64)
				if !ok {
					m.unsupported("symbolic byte in string conversion")
				}
				b[i] = byte(c)
			}
			return string(b)
		}
		if fromInt {
			if c, ok := v.(int64); ok {
				return string(rune(c))
			}
		}
	}
	if _, ok := to.Underlying().(*types.Slice); ok {
		if s, ok := v.(string); ok { // string -> []byte
			back := make([]*Cell, len(s))
			for i := range back {
				back[i] = &Cell{V: int64(s[i])}
			}
			return SliceV{Back: back, Len: len(s), Cap: len(s)}
		}
	}
	if _, ok := to.Underlying().(*types.Pointer); ok {
		return v
	}
	m.unsupported(fmt.Sprintf("convert %s -> %s", from, to))
	return nil
}

func (m *Machine) roundTo(t types.Type, f float64) float64 {
	if t.Underlying().(*types.Basic).Kind() == types.Float32 {
		return float64(float32(f))
	}
	return f
}

func concFloatToInt(f float64, k intKind) int64 {
	// Go semantics on amd64 for in-range values; out-of-range is
	// implementation-defined: mirror amd64 (CVTTSD2SQ gives MinInt64).
	if k.signed {
		if k.bits == 64 {
			if f != f || f >= 9.223372036854775807e18 || f < -9.223372036854775808e18 {
				return math.MinInt64
			}
			return int64(f)
		}
		return k.normC(int64(f))
	}
	if k.bits == 64 {
		return int64(uint64(f))
	}
	return k.normC(int64(f))
}

var _ = bits.Len
