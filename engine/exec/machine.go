package exec

import (
	"fmt"
	"io"
	"os"
	"math/big"
	"sort"
	"strings"
	"time"

	"golang.org/x/tools/go/ssa"

	"gosymx/smt"
	"gosymx/sym"
)

// Outcome of one path.
type PathStatus int

const (
	PathOK           PathStatus = iota // harness returned
	PathPanic                          // interpreted code panicked
	PathBudget                         // step/loop budget exhausted (unwinding failure)
	PathInfeasible                     // an assume made the path condition unsat
	PathUnsupported                    // executor could not encode something
	PathAssumeFalse                    // concrete assume(false)
)

func (s PathStatus) String() string {
	return [...]string{"ok", "panic", "budget", "infeasible", "unsupported", "assume-false"}[s]
}

// Dec is one recorded decision: a branch outcome, or a concretisation
// candidate V together with whether it was taken.
type Dec struct {
	B bool
	C bool
	V int64
}

func (d Dec) String() string {
	if d.C {
		if d.B {
			return fmt.Sprintf("=%d", d.V)
		}
		return fmt.Sprintf("!%d", d.V)
	}
	if d.B {
		return "T"
	}
	return "F"
}

type NondetRec struct {
	Name string // SMT variable name
	Kind string // "int", "bool", "real"
	Atom *sym.Atom
	BVar *sym.Bool
}

type Obligation struct {
	ID       string
	Result   string // "unsat", "sat", "unknown", "concrete-true", "concrete-false"
	Witness  map[string]string
	WitnessV []string // nondet values in call order
	PCSize   int
	Excused  string // known-finding excuse applied
	MoreWitnesses [][]string // further models of the same violated obligation
}

type ObserveRec struct {
	ID   string
	Term Value
	Val  string // value under the path's sample model
}

type MonitorEvent struct {
	Kind, Detail, Where string
}

type PathResult struct {
	Prefix      []Dec
	Trace       []Dec
	Status      PathStatus
	Detail      string
	PanicMsg    string
	Obligations []Obligation
	Covers      []string
	Observes    []ObserveRec
	Monitors    []MonitorEvent
	Sample      []string // nondet values (call order) of one model of the final PC; nil if none
	SampleNames []string
	Approx      bool // some float rounding variable was introduced
	Steps       int
	Funcs       map[string]int
	Children    [][]Dec
	Queries     int
	SolverTime  time.Duration
	Assumes     []string
	SiteExcuses []string
	FeasUnknown int
	PCText      []string
	Stubs       []string
	SampleStatus string // result of the final check-sat of the path condition
	KnownKeys   []string
	Rounds      int
}

type Config struct {
	MaxSteps    int
	MaxLoopIter int
	SampleModel bool
	// SiteAssume: on entry of the named function, assume the returned
	// condition (used for known-finding site predicates). Returns nil for none.
	SiteAssume map[string]func(m *Machine, args []Value) *sym.Bool
	// MergeFuncs: functions executed in merge mode (no forking inside).
	MergeFuncs map[string]bool
	// Summaries: replace a function by a native summary.
	Summaries map[string]func(m *Machine, args []Value) Value
	KeepPCText bool
	// Excuse: known-finding keys whose input class (vKnown) is assumed away.
	Excuse map[string]bool
	// ConcreteWitness, when set, makes vInt/vBool return these values (plain
	// interpretation; used to validate the interpreter itself).
	ConcreteWitness []string
	// Guide, when set, is a witness under which every symbolic branch is
	// decided by evaluation (one path, no forking); for debugging.
	Guide []string
	TraceIf io.Writer
	// JobBudget: wall-clock limit for exploring one job (0 = none); when it is
	// exceeded the exploration stops and is reported as truncated.
	JobBudget time.Duration
	// Args are the concrete int64 arguments passed to the harness entry.
	Args []int64
}

type Machine struct {
	W       *World
	cfg     *Config
	ctx     *sym.Ctx
	em      *sym.Emitter
	solver  *smt.Solver
	oneshot *smt.Solver // used non-incrementally (reset + full script) for proof obligations
	pc      []*sym.Bool
	prefix  []Dec
	depth   int
	trace   []Dec
	res     *PathResult
	nondets []NondetRec
	globals map[*ssa.Global]*Cell
	initDone bool
	steps   int
	nFresh  int
	callDepth int
	curFn   []*ssa.Function
	mergeGuard *sym.Bool // non-nil while in merge mode
	pcUnsat bool
	guide   *sym.Model
	pcKeys  map[string]bool
	fmemo   map[string]*sym.Lin // materialised floats by operation key
	nRound  int
}

type pathAbort struct {
	status PathStatus
	detail string
}

type goPanicT struct {
	val Value
	msg string
}

func (m *Machine) abort(s PathStatus, detail string) {
	panic(pathAbort{s, detail})
}

func (m *Machine) unsupported(what string) {
	where := ""
	if n := len(m.curFn); n > 0 {
		where = " in " + m.curFn[n-1].Name()
	}
	m.abort(PathUnsupported, what+where)
}

func (m *Machine) goPanic(msg string) {
	panic(goPanicT{msg: msg})
}

func (m *Machine) where() string {
	var names []string
	for i := len(m.curFn) - 1; i >= 0 && len(names) < 4; i-- {
		names = append(names, m.curFn[i].Name())
	}
	return strings.Join(names, "<")
}

func (m *Machine) monitorEvent(kind, detail string) {
	m.res.Monitors = append(m.res.Monitors, MonitorEvent{kind, detail, m.where()})
}

// ---------------------------------------------------------------------------
// Path condition and solver
// ---------------------------------------------------------------------------

func (m *Machine) drainSide() {
	for len(m.ctx.Side) > 0 {
		s := m.ctx.Side
		m.ctx.Side = nil
		for _, b := range s {
			m.addPC(b)
		}
	}
}

func (m *Machine) addPC(b *sym.Bool) {
	if b.Kind == sym.BConst {
		if !b.Val {
			m.pcUnsat = true
		}
		return
	}
	m.pc = append(m.pc, b)
	if m.pcKeys == nil {
		m.pcKeys = map[string]bool{}
	}
	m.pcKeys[b.Key()] = true
	if b.Kind == sym.BAnd {
		for _, a := range b.Args {
			m.pcKeys[a.Key()] = true
		}
	}
	txt := m.em.Bool(b)
	for _, d := range m.em.TakeDecls() {
		m.solver.Send(d)
	}
	m.solver.Assert(txt)
	if m.cfg.KeepPCText {
		m.res.PCText = append(m.res.PCText, txt)
	}
}

// query: is PC ∧ b satisfiable?
func (m *Machine) query(b *sym.Bool) smt.Result {
	if b.Kind == sym.BConst {
		if !b.Val {
			return smt.Unsat
		}
	}
	m.drainSide()
	txt := m.em.Bool(b)
	for _, d := range m.em.TakeDecls() {
		m.solver.Send(d)
	}
	m.solver.Push()
	m.solver.Assert(txt)
	t0 := time.Now()
	r := m.solver.Check()
	m.res.SolverTime += time.Since(t0)
	m.res.Queries++
	m.solver.Pop()
	if m.solver.Dead() {
		m.abort(PathUnsupported, "solver ignored its timeout and was killed (feasibility query)")
	}
	return r
}

// Assume adds b to the path condition without checking feasibility.
func (m *Machine) Assume(b *sym.Bool) {
	m.drainSide()
	m.addPC(b)
}

// Branch decides a symbolic condition, forking if both sides are feasible.
func (m *Machine) Branch(cond *sym.Bool) bool {
	if cond.Kind == sym.BConst {
		return cond.Val
	}
	if m.mergeGuard != nil {
		m.unsupported("fork inside merge-mode function")
	}
	m.drainSide()
	if m.guide != nil {
		if v, ok := m.guide.EvalBool(cond); ok {
			if v {
				m.addPC(cond)
			} else {
				m.addPC(m.ctx.Not(cond))
			}
			return v
		}
	}
	if m.pcKeys[cond.Key()] {
		return true
	}
	if m.pcKeys[m.ctx.Not(cond).Key()] {
		return false
	}
	if m.depth < len(m.prefix) {
		d := m.prefix[m.depth]
		if d.C {
			panic("replay divergence: expected branch decision, found concretisation")
		}
		m.depth++
		m.trace = append(m.trace, d)
		if d.B {
			m.addPC(cond)
		} else {
			m.addPC(m.ctx.Not(cond))
		}
		return d.B
	}
	ncond := m.ctx.Not(cond)
	rt := m.query(cond)
	var take bool
	switch rt {
	case smt.Unsat:
		take = false
	case smt.Sat, smt.Unknown:
		if rt == smt.Unknown {
			m.res.FeasUnknown++
		}
		rf := m.query(ncond)
		if rf == smt.Unknown {
			m.res.FeasUnknown++
		}
		take = true
		if rf != smt.Unsat {
			child := append(append([]Dec{}, m.trace...), Dec{B: false})
			m.res.Children = append(m.res.Children, child)
		}
	}
	m.depth++
	m.trace = append(m.trace, Dec{B: take})
	if take {
		m.addPC(cond)
	} else {
		m.addPC(ncond)
	}
	return take
}

// Concretize returns a concrete value for l, forking over the alternatives.
func (m *Machine) Concretize(l *sym.Lin, what string) int64 {
	if v, ok := l.ConstInt64(); ok {
		return v
	}
	if m.mergeGuard != nil {
		m.unsupported("concretisation inside merge-mode function")
	}
	for iter := 0; iter < 256; iter++ {
		m.drainSide()
		if m.depth < len(m.prefix) {
			d := m.prefix[m.depth]
			if !d.C {
				panic("replay divergence: expected concretisation, found branch")
			}
			m.depth++
			m.trace = append(m.trace, d)
			eq := m.ctx.Eq(l, m.ctx.ConstI(d.V))
			if d.B {
				m.addPC(eq)
				return d.V
			}
			m.addPC(m.ctx.Not(eq))
			continue
		}
		txt := m.em.Lin(l)
		for _, d := range m.em.TakeDecls() {
			m.solver.Send(d)
		}
		r := m.solver.Check()
		m.res.Queries++
		if r != smt.Sat {
			m.abort(PathInfeasible, "concretize "+what+": "+r.String())
		}
		vals, err := m.solver.GetValues([]string{txt})
		if err != nil {
			m.unsupported("concretize get-value: " + err.Error())
		}
		rv, err := smt.ParseNum(vals[0])
		if err != nil || !rv.IsInt() || !rv.Num().IsInt64() {
			m.unsupported("concretize value " + vals[0])
		}
		v := rv.Num().Int64()
		eq := m.ctx.Eq(l, m.ctx.ConstI(v))
		if rf := m.query(m.ctx.Not(eq)); rf != smt.Unsat {
			child := append(append([]Dec{}, m.trace...), Dec{C: true, B: false, V: v})
			m.res.Children = append(m.res.Children, child)
		}
		m.depth++
		m.trace = append(m.trace, Dec{C: true, B: true, V: v})
		m.addPC(eq)
		return v
	}
	m.abort(PathBudget, "concretize "+what+": too many alternatives")
	return 0
}

func (m *Machine) fresh(prefix string) string {
	m.nFresh++
	return fmt.Sprintf("%s%d", prefix, m.nFresh)
}

// FreshReal introduces an unconstrained-within-bounds real variable.
func (m *Machine) FreshReal(prefix string, lo, hi *big.Rat) *sym.Lin {
	a := m.ctx.NewVar(m.fresh(prefix), sym.SReal, lo, hi)
	return m.ctx.FromAtom(a)
}

func (m *Machine) FreshInt(prefix string, lo, hi *big.Rat) *sym.Lin {
	a := m.ctx.NewVar(m.fresh(prefix), sym.SInt, lo, hi)
	return m.ctx.FromAtom(a)
}

// model extraction: values of all nondets in call order.
func (m *Machine) nondetExprs() []string {
	out := make([]string, len(m.nondets))
	for i, n := range m.nondets {
		out[i] = n.Name
	}
	return out
}

func (m *Machine) declareNondets() {
	// make sure every nondet is declared in the solver even if unused so far
	for _, n := range m.nondets {
		if n.Atom != nil {
			m.em.Lin(m.ctx.FromAtom(n.Atom))
		} else {
			m.em.Bool(n.BVar)
		}
	}
	for _, d := range m.em.TakeDecls() {
		m.solver.Send(d)
	}
}

// Assert handles a proof obligation.
func (m *Machine) Assert(id string, cond *sym.Bool) {
	ob := Obligation{ID: id, PCSize: len(m.pc)}
	m.drainSide()
	if cond.Kind == sym.BConst {
		if cond.Val {
			ob.Result = "concrete-true"
			m.res.Obligations = append(m.res.Obligations, ob)
			return
		}
		// concrete false: every model of the PC is a witness
		ob.Result = "sat"
		m.declareNondets()
		if r := m.solver.Check(); r == smt.Sat {
			vals, err := m.solver.GetValues(m.nondetExprs())
			if err == nil {
				ob.WitnessV = vals
				if ob.WitnessV == nil {
					ob.WitnessV = []string{} // no symbolic inputs: the empty witness still replays
				}
			}
		} else if r == smt.Unsat {
			ob.Result = "unsat" // infeasible path
		} else {
			ob.Result = "unknown"
		}
		m.res.Queries++
		m.res.Obligations = append(m.res.Obligations, ob)
		return
	}
	neg := m.ctx.Not(cond)
	txt := m.em.Bool(neg)
	m.declareNondets()
	for _, d := range m.em.TakeDecls() {
		m.solver.Send(d)
	}
	t0 := time.Now()
	r, vals := m.solveOneshot(txt, id)
	m.res.SolverTime += time.Since(t0)
	m.res.Queries++
	ob.Result = r.String()
	if r == smt.Sat {
		if vals != nil {
			ob.WitnessV = vals
			ob.MoreWitnesses = m.moreModels(vals, 4)
		} else {
			ob.Result = "unknown"
			ob.Excused = "model unreadable"
		}
	}
	m.res.Obligations = append(m.res.Obligations, ob)
	// continue the path assuming the assertion holds
	m.addPC(cond)
}

// solveOneshot decides PC ∧ extra in the non-incremental solver (fresh
// context, full script), which lets z3 use its preprocessing tactics.
func (m *Machine) solveOneshot(extra, id string) (smt.Result, []string) {
	s := m.oneshot
	s.Reset()
	var sb strings.Builder
	for _, d := range m.em.All {
		sb.WriteString(d)
		sb.WriteByte('\n')
	}
	for _, p := range m.pc {
		sb.WriteString("(assert " + m.em.Bool(p) + ")\n")
	}
	sb.WriteString("(assert " + extra + ")")
	if dir := os.Getenv("GOSYMX_DUMPUNKNOWN"); dir != "" && os.Getenv("GOSYMX_DUMPALL") != "" {
		os.WriteFile(fmt.Sprintf("%s/ob_%s_%d_%d.smt2", dir, id, os.Getpid(), len(m.trace)*100000+m.steps), []byte(sb.String()+"\n(check-sat)\n"), 0o644)
	}
	s.Send(sb.String())
	r := s.Check()
	if r == smt.Unknown {
		if dir := os.Getenv("GOSYMX_DUMPUNKNOWN"); dir != "" {
			os.WriteFile(fmt.Sprintf("%s/unknown_%s_%d_%d.smt2", dir, id, os.Getpid(), len(m.trace)*100000+m.steps), []byte(sb.String()+"\n(check-sat)\n"), 0o644)
		}
	}
	if r == smt.Sat {
		vals, err := s.GetValues(m.nondetExprs())
		if err != nil {
			return r, nil
		}
		return r, vals
	}
	return r, nil
}

// moreModels asks the (still loaded) oneshot solver for up to k further models
// of the violated obligation, each differing from all earlier ones in some
// nondeterministic input. Float over-approximation means a single model may
// not be a real execution; several candidates make the native replay robust.
func (m *Machine) moreModels(first []string, k int) [][]string {
	var out [][]string
	prev := first
	s := m.oneshot
	for i := 0; i < k; i++ {
		var diffs []string
		for j, n := range m.nondets {
			if j < len(prev) && prev[j] != "" {
				diffs = append(diffs, "(not (= "+n.Name+" "+prev[j]+"))")
			}
		}
		if len(diffs) == 0 {
			break
		}
		s.Send("(assert (or " + strings.Join(diffs, " ") + "))")
		if s.Check() != smt.Sat {
			break
		}
		vals, err := s.GetValues(m.nondetExprs())
		if err != nil {
			break
		}
		out = append(out, vals)
		prev = vals
	}
	return out
}

// ---------------------------------------------------------------------------
// Running one path
// ---------------------------------------------------------------------------

// RunPath executes entry following prefix and returns the result. The solver
// is reset first.
func RunPath(w *World, cfg *Config, solver, oneshot *smt.Solver, entry *ssa.Function, prefix []Dec) (res *PathResult) {
	m := &Machine{W: w, cfg: cfg, ctx: sym.NewCtx(), em: sym.NewEmitter(), solver: solver, oneshot: oneshot,
		prefix: prefix, globals: map[*ssa.Global]*Cell{}}
	res = &PathResult{Prefix: prefix, Funcs: map[string]int{}}
	m.res = res
	if cfg.Guide != nil {
		m.guide = sym.NewModel()
	}
	solver.Reset()
	q0 := solver.Queries
	defer func() {
		res.Trace = m.trace
		res.Steps = m.steps
		res.Rounds = m.nRound
		_ = q0
		if r := recover(); r != nil {
			switch x := r.(type) {
			case pathAbort:
				res.Status = x.status
				res.Detail = x.detail
			case goPanicT:
				res.Status = PathPanic
				res.PanicMsg = x.msg
				if x.val != nil {
					res.PanicMsg = m.describePanic(x.val)
				}
				res.Detail = m.where()
			default:
				panic(r)
			}
		}
		for _, n := range m.nondets {
			res.SampleNames = append(res.SampleNames, n.Name)
		}
		if res.Status == PathOK || res.Status == PathPanic || res.Status == PathBudget {
			m.finishSample()
		}
	}()
	m.initGlobals()
	m.initDone = true
	var args []Value
	for _, a := range cfg.Args {
		args = append(args, a)
	}
	m.call(entry, args)
	return res
}

func (m *Machine) finishSample() {
	defer func() {
		if r := recover(); r != nil {
			if _, ok := r.(pathAbort); !ok {
				panic(r)
			}
		}
	}()
	if !m.cfg.SampleModel && m.res.Status == PathOK {
		return
	}
	m.drainSide()
	m.declareNondets()
	var exprs []string
	exprs = append(exprs, m.nondetExprs()...)
	nn := len(exprs)
	for i := range m.res.Observes {
		o := &m.res.Observes[i]
		switch t := o.Term.(type) {
		case *sym.Lin:
			exprs = append(exprs, m.em.Lin(t))
		case *sym.Bool:
			exprs = append(exprs, m.em.Bool(t))
		case int64:
			if t < 0 {
				o.Val = fmt.Sprintf("(- %d)", -t)
			} else {
				o.Val = fmt.Sprint(t)
			}
			exprs = append(exprs, "")
		case bool:
			o.Val = fmt.Sprint(t)
			exprs = append(exprs, "")
		default:
			exprs = append(exprs, "")
		}
	}
	for _, d := range m.em.TakeDecls() {
		m.solver.Send(d)
	}
	m.solver.Send("(set-option :timeout 5000)")
	r := m.solver.Check()
	m.res.Queries++
	m.res.SampleStatus = r.String()
	if r == smt.Unsat && m.res.Status == PathOK {
		m.res.Status = PathInfeasible
		m.res.Detail = "final PC unsat"
		return
	}
	if r != smt.Sat {
		return
	}
	var ask []string
	var idx []int
	for i, e := range exprs {
		if e != "" {
			ask = append(ask, e)
			idx = append(idx, i)
		}
	}
	vals, err := m.solver.GetValues(ask)
	if err != nil {
		return
	}
	all := make([]string, len(exprs))
	for j, i := range idx {
		all[i] = vals[j]
	}
	m.res.Sample = all[:nn]
	for i := range m.res.Observes {
		o := &m.res.Observes[i]
		if all[nn+i] != "" {
			o.Val = all[nn+i]
		}
	}
}

func (m *Machine) describePanic(v Value) string {
	switch x := v.(type) {
	case IfaceV:
		if e, ok := x.V.(*ErrObj); ok {
			return "error: " + e.Msg
		}
		if s, ok := x.V.(string); ok {
			return s
		}
		return fmt.Sprintf("panic(%v)", x.V)
	}
	return fmt.Sprintf("panic(%v)", v)
}

// SortedFuncs lists function names entered.
func (r *PathResult) SortedFuncs() []string {
	var out []string
	for k := range r.Funcs {
		out = append(out, k)
	}
	sort.Strings(out)
	return out
}
