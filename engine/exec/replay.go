package exec

import (
	"encoding/json"
	"fmt"
	"os"
	osexec "os/exec"
	"path/filepath"
	"sort"
	"strings"
	"time"
)

// Native replay: the harness sources plus harness/native.go are compiled into
// the real package's test binary (go test -c -overlay) and run on witnesses.

type ReplayCase struct {
	Harness string   `json:"harness"`
	Args    []int64  `json:"args"`
	Witness []string `json:"witness"`
}

type ReplayResult struct {
	Harness   string   `json:"harness"`
	Failed    []string `json:"failed"`
	Covers    []string `json:"covers"`
	Observes  []string `json:"observes"`
	Panic     string   `json:"panic"`
	Short     bool     `json:"short"`
	BadAssume bool     `json:"bad_assume"`
	TimedOut  bool     `json:"timed_out"`
	Millis    int64    `json:"millis"`
}

type Replayer struct {
	RepoDir, HarnessDir, WorkDir string
	bin                          string
	BuildTime                    time.Duration
}

const replayTestSrc = `//go:build verif && !verifsym

package go_clipper2

import (
	"encoding/json"
	"fmt"
	"os"
	"testing"
	"time"
)

type vReplayCase struct {
	Harness string   ` + "`json:\"harness\"`" + `
	Args    []int64  ` + "`json:\"args\"`" + `
	Witness []string ` + "`json:\"witness\"`" + `
}

type vReplayResult struct {
	Harness   string   ` + "`json:\"harness\"`" + `
	Failed    []string ` + "`json:\"failed\"`" + `
	Covers    []string ` + "`json:\"covers\"`" + `
	Observes  []string ` + "`json:\"observes\"`" + `
	Panic     string   ` + "`json:\"panic\"`" + `
	Short     bool     ` + "`json:\"short\"`" + `
	BadAssume bool     ` + "`json:\"bad_assume\"`" + `
	TimedOut  bool     ` + "`json:\"timed_out\"`" + `
	Millis    int64    ` + "`json:\"millis\"`" + `
}

func vRunCase(c vReplayCase) (res vReplayResult) {
	res.Harness = c.Harness
	st := &vCaseState{Witness: c.Witness}
	vCur = st
	t0 := time.Now()
	done := make(chan struct{})
	go func() {
		defer close(done)
		defer func() {
			if r := recover(); r != nil {
				if _, ok := r.(vAssumeFailed); ok {
					return
				}
				if e, ok := r.(error); ok {
					res.Panic = "error: " + e.Error()
				} else {
					res.Panic = fmt.Sprint(r)
				}
				if res.Panic == "" {
					res.Panic = "panic"
				}
			}
		}()
		f, ok := vRegistry[c.Harness]
		if !ok {
			res.Panic = "no such harness"
			return
		}
		f(c.Args)
	}()
	select {
	case <-done:
	case <-time.After(20 * time.Second):
		res.TimedOut = true
	}
	res.Millis = time.Since(t0).Milliseconds()
	res.Failed, res.Covers, res.Observes = st.Failed, st.Covers, st.Observes
	res.Short, res.BadAssume = st.Short, st.BadAssume
	return
}

func TestVerifReplay(t *testing.T) {
	in, out := os.Getenv("VERIF_CASES"), os.Getenv("VERIF_OUT")
	if in == "" {
		t.Skip("no cases")
	}
	b, err := os.ReadFile(in)
	if err != nil {
		t.Fatal(err)
	}
	var cases []vReplayCase
	if err := json.Unmarshal(b, &cases); err != nil {
		t.Fatal(err)
	}
	var results []vReplayResult
	for _, c := range cases {
		r := vRunCase(c)
		results = append(results, r)
		if r.TimedOut {
			break // a hung goroutine cannot be stopped; report what we have
		}
	}
	ob, _ := json.Marshal(results)
	if err := os.WriteFile(out, ob, 0o644); err != nil {
		t.Fatal(err)
	}
}
`

// Build compiles the replay test binary for the current /repo tree.
func (r *Replayer) Build(w *World) error {
	t0 := time.Now()
	if err := os.MkdirAll(r.WorkDir, 0o755); err != nil {
		return err
	}
	// registry of harness entry points
	var sb strings.Builder
	sb.WriteString("//go:build verif && !verifsym\n\npackage go_clipper2\n\nvar vRegistry = map[string]func(a []int64){\n")
	names := w.Harnesses("H_")
	sort.Strings(names)
	for _, n := range names {
		fn := w.Entry(n)
		np := fn.Signature.Params().Len()
		var args []string
		for i := 0; i < np; i++ {
			args = append(args, fmt.Sprintf("a[%d]", i))
		}
		fmt.Fprintf(&sb, "\t%q: func(a []int64) { %s(%s) },\n", n, n, strings.Join(args, ", "))
	}
	sb.WriteString("}\n")
	regPath := filepath.Join(r.WorkDir, "registry.go")
	if err := os.WriteFile(regPath, []byte(sb.String()), 0o644); err != nil {
		return err
	}
	testPath := filepath.Join(r.WorkDir, "replay_test.go")
	if err := os.WriteFile(testPath, []byte(replayTestSrc), 0o644); err != nil {
		return err
	}
	overlay := map[string]string{
		filepath.Join(r.RepoDir, "zz_verif_registry.go"):    regPath,
		filepath.Join(r.RepoDir, "zz_verif_replay_test.go"): testPath,
	}
	ents, err := os.ReadDir(r.HarnessDir)
	if err != nil {
		return err
	}
	for _, e := range ents {
		n := e.Name()
		if strings.HasSuffix(n, ".go") && !strings.HasSuffix(n, "_test.go") {
			overlay[filepath.Join(r.RepoDir, "zz_verif_"+n)] = filepath.Join(r.HarnessDir, n)
		}
	}
	ob, _ := json.Marshal(map[string]any{"Replace": overlay})
	ovPath := filepath.Join(r.WorkDir, "overlay.json")
	if err := os.WriteFile(ovPath, ob, 0o644); err != nil {
		return err
	}
	r.bin = filepath.Join(r.WorkDir, "replay.test")
	cmd := osexec.Command("go", "test", "-c", "-vet=off", "-tags=verif", "-overlay", ovPath, "-o", r.bin, ".")
	cmd.Dir = r.RepoDir
	cmd.Env = GoEnv()
	out, err := cmd.CombinedOutput()
	if err != nil {
		return fmt.Errorf("replay build failed: %v\n%s", err, out)
	}
	r.BuildTime = time.Since(t0)
	return nil
}

// Run executes the cases natively. A hang ends the batch early; remaining
// cases are re-run in further batches.
func (r *Replayer) Run(cases []ReplayCase) ([]ReplayResult, error) {
	var all []ReplayResult
	batch := 0
	hangs := 0
	for len(cases) > 0 {
		if hangs >= 3 {
			break // the code under test hangs natively on several witnesses: enough to report, stop waiting
		}
		batch++
		in := filepath.Join(r.WorkDir, fmt.Sprintf("cases_%d_%d.json", os.Getpid(), batch))
		out := filepath.Join(r.WorkDir, fmt.Sprintf("out_%d_%d.json", os.Getpid(), batch))
		b, _ := json.Marshal(cases)
		if err := os.WriteFile(in, b, 0o644); err != nil {
			return nil, err
		}
		cmd := osexec.Command(r.bin, "-test.run", "^TestVerifReplay$", "-test.timeout", "30m")
		cmd.Dir = r.RepoDir
		cmd.Env = append(os.Environ(), "VERIF_CASES="+in, "VERIF_OUT="+out)
		o, err := cmd.CombinedOutput()
		ob, rerr := os.ReadFile(out)
		os.Remove(in)
		os.Remove(out)
		if rerr != nil {
			return all, fmt.Errorf("replay run failed: %v\n%s", err, o)
		}
		var res []ReplayResult
		if err := json.Unmarshal(ob, &res); err != nil {
			return all, err
		}
		all = append(all, res...)
		if n := len(res); n > 0 && res[n-1].TimedOut {
			hangs++
		}
		if len(res) == 0 {
			return all, fmt.Errorf("replay produced no results: %s", o)
		}
		cases = cases[len(res):]
	}
	return all, nil
}

func (r *Replayer) Cleanup() {
	os.RemoveAll(r.WorkDir)
}
