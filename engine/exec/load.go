package exec

import (
	"fmt"
	"os"
	"path/filepath"
	"sort"
	"strings"
	"sync"

	"golang.org/x/tools/go/packages"
	"golang.org/x/tools/go/ssa"
	"golang.org/x/tools/go/ssa/ssautil"
)

// World is the loaded program: /repo's current tree plus harness overlay.
type World struct {
	Prog *ssa.Program
	Pkg  *ssa.Package
	mu   sync.Mutex

	fnInfos           map[*ssa.Function]*fnInfo
	intrinsics        map[string]func(m *Machine, fn *ssa.Function, args []Value) Value
	harnessIntrinsics map[string]func(m *Machine, fn *ssa.Function, args []Value) Value
	RepoFiles         []string
	HarnessFiles      []string
}

// Load builds SSA for the package in repoDir with every *.go file of
// harnessDir (except native*.go) injected as repoDir/zz_verif_<name>.
func Load(repoDir, harnessDir string) (*World, error) {
	overlay := map[string][]byte{}
	var hfiles []string
	ents, err := os.ReadDir(harnessDir)
	if err != nil {
		return nil, err
	}
	for _, e := range ents {
		n := e.Name()
		if !strings.HasSuffix(n, ".go") || strings.HasSuffix(n, "_test.go") || strings.HasPrefix(n, "native") {
			continue
		}
		b, err := os.ReadFile(filepath.Join(harnessDir, n))
		if err != nil {
			return nil, err
		}
		overlay[filepath.Join(repoDir, "zz_verif_"+n)] = b
		hfiles = append(hfiles, n)
	}
	sort.Strings(hfiles)
	cfg := &packages.Config{
		Mode:       packages.LoadAllSyntax,
		Dir:        repoDir,
		Overlay:    overlay,
		BuildFlags: []string{"-tags=verif,verifsym"},
		Env:        GoEnv(),
	}
	pkgs, err := packages.Load(cfg, ".")
	if err != nil {
		return nil, err
	}
	if len(pkgs) != 1 {
		return nil, fmt.Errorf("expected 1 package, got %d", len(pkgs))
	}
	var errs []string
	packages.Visit(pkgs, nil, func(p *packages.Package) {
		for _, e := range p.Errors {
			errs = append(errs, e.Error())
		}
	})
	if len(errs) > 0 {
		return nil, fmt.Errorf("load errors:\n%s", strings.Join(errs, "\n"))
	}
	prog, spkgs := ssautil.AllPackages(pkgs, ssa.InstantiateGenerics|ssa.SanityCheckFunctions)
	prog.Build()
	w := &World{Prog: prog, Pkg: spkgs[0], fnInfos: map[*ssa.Function]*fnInfo{}}
	for _, f := range pkgs[0].GoFiles {
		w.RepoFiles = append(w.RepoFiles, filepath.Base(f))
	}
	w.HarnessFiles = hfiles
	w.registerIntrinsics()
	return w, nil
}

// Entry returns the harness function with the given name.
func (w *World) Entry(name string) *ssa.Function {
	return w.Pkg.Func(name)
}

// Harnesses lists package-level functions whose names start with prefix.
func (w *World) Harnesses(prefix string) []string {
	var out []string
	for n, mem := range w.Pkg.Members {
		if _, ok := mem.(*ssa.Function); ok && strings.HasPrefix(n, prefix) {
			out = append(out, n)
		}
	}
	sort.Strings(out)
	return out
}

// GoEnv is the environment for every go command the framework runs: the
// go1.26.8 toolchain first on PATH, offline module mode.
func init() {
	// exec.LookPath resolves "go" through the process PATH, so the toolchain
	// must come first there as well.
	os.Setenv("PATH", "/opt/veriftools/go1.26.8/bin:"+os.Getenv("PATH"))
}

func GoEnv() []string {
	env := []string{}
	for _, e := range os.Environ() {
		if strings.HasPrefix(e, "PATH=") || strings.HasPrefix(e, "GOFLAGS=") || strings.HasPrefix(e, "GOTOOLCHAIN=") ||
			strings.HasPrefix(e, "GOPROXY=") || strings.HasPrefix(e, "GOSUMDB=") {
			continue
		}
		env = append(env, e)
	}
	return append(env, "PATH="+os.Getenv("PATH"),
		"GOFLAGS=-mod=mod", "GOPROXY=off", "GOTOOLCHAIN=local", "GOSUMDB=off")
}
