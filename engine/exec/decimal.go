package exec

import (
	"math/big"

	"github.com/govalues/decimal"
	"golang.org/x/tools/go/ssa"

	"gosymx/sym"
)

// DecV stands for a govalues/decimal.Decimal. Concrete decimals are the real
// library's values; symbolic ones are contract stubs (see DESIGN §2.2).
type DecV struct {
	Conc      bool
	D         decimal.Decimal
	OK        bool     // construction succeeded (library returned no error)
	L         *sym.Lin // symbolic: real value
	FromFloat bool     // built by NewFromFloat64 (shortest decimal representation)
}

func errIface(err error) Value {
	if err == nil {
		return IfaceV{}
	}
	return IfaceV{T: errType, V: &ErrObj{Msg: err.Error()}}
}

func (m *Machine) decOf(v Value) DecV {
	switch d := v.(type) {
	case DecV:
		return d
	case StructV: // zero Decimal{} produced by the interpreter
		return DecV{Conc: true, OK: true}
	}
	m.unsupported("decimal value of unexpected shape")
	return DecV{}
}

func (m *Machine) decLin(d DecV) *sym.Lin {
	if d.Conc {
		r, ok := new(big.Rat).SetString(d.D.String())
		if !ok {
			m.unsupported("decimal to rational")
		}
		return m.ctx.Const(sym.SReal, r)
	}
	return d.L
}

func (w *World) registerDecimal() {
	x := w.intrinsics
	const p = "github.com/govalues/decimal."
	const mp = "(github.com/govalues/decimal.Decimal)."
	x[p+"New"] = func(m *Machine, fn *ssa.Function, a []Value) Value {
		scale := int(concI(m, a[1]))
		switch v := a[0].(type) {
		case int64:
			d, err := decimal.New(v, scale)
			return TupleV{DecV{Conc: true, D: d, OK: err == nil}, errIface(err)}
		case *sym.Lin:
			if scale != 0 {
				m.unsupported("decimal.New symbolic with scale")
			}
			m.stub("decimal.New(sym,0) = exact integer")
			return TupleV{DecV{L: m.ctx.ToReal(v), OK: true}, IfaceV{}}
		}
		panic("decimal.New")
	}
	x[p+"NewFromFloat64"] = func(m *Machine, fn *ssa.Function, a []Value) Value {
		switch v := a[0].(type) {
		case float64:
			d, err := decimal.NewFromFloat64(v)
			return TupleV{DecV{Conc: true, D: d, OK: err == nil}, errIface(err)}
		case *FSym:
			m.stub("decimal.NewFromFloat64(sym) = the float's value (shortest repr; <=19 integer digits assumed)")
			return TupleV{DecV{L: m.val(v), OK: true, FromFloat: true}, IfaceV{}}
		}
		panic("decimal.NewFromFloat64")
	}
	bin := func(name string) {
		x[mp+name] = func(m *Machine, fn *ssa.Function, a []Value) Value {
			d, e := m.decOf(a[0]), m.decOf(a[1])
			if d.Conc && e.Conc {
				var r decimal.Decimal
				var err error
				if name == "Mul" {
					r, err = d.D.Mul(e.D)
				} else {
					r, err = d.D.Add(e.D)
				}
				return TupleV{DecV{Conc: true, D: r, OK: err == nil}, errIface(err)}
			}
			m.stub("decimal." + name + " symbolic = exact real (19-digit rounding folded into Float64's epsilon)")
			var l *sym.Lin
			if name == "Mul" {
				l = m.ctx.Mul(m.decLin(d), m.decLin(e))
			} else {
				l = m.ctx.Add(m.decLin(d), m.decLin(e))
			}
			return TupleV{DecV{L: m.ctx.ToReal(l), OK: true}, IfaceV{}}
		}
	}
	bin("Mul")
	bin("Add")
	x[mp+"Float64"] = func(m *Machine, fn *ssa.Function, a []Value) Value {
		d := m.decOf(a[0])
		if d.Conc {
			f, ok := d.D.Float64()
			return TupleV{f, ok}
		}
		// nearest float of a value that may itself have been rounded to 19
		// digits: two roundings
		if d.L.IntegerValued() && within53(d.L) {
			return TupleV{m.exactF(d.L), true}
		}
		half := m.ctx.Scale(d.L, sym.R(2))
		if half.IntegerValued() && within53(half) {
			return TupleV{m.exactF(d.L), true}
		}
		// two roundings: 19-digit decimal, then nearest float
		fv := m.mkF(d.L, rhoMul(ulpHalf, new(big.Rat), true))
		if fs, ok := fv.(*FSym); ok && fs.op == "" {
			fs.op = "decf(" + d.L.Key() + ")" // a deterministic function of the decimal's value
		}
		return TupleV{fv, true}
	}
	x[mp+"Int64"] = func(m *Machine, fn *ssa.Function, a []Value) Value {
		d := m.decOf(a[0])
		scale := int(concI(m, a[1]))
		if d.Conc {
			w, f, ok := d.D.Int64(scale)
			return TupleV{w, f, ok}
		}
		if scale != 0 {
			m.unsupported("decimal.Int64 symbolic with scale")
		}
		// whole part after rounding half-even to scale 0: an integer q with
		// |q - v| <= 1/2 (memoised per term: the same v gives the same q).
		if d.L.IntegerValued() {
			q, _ := m.ctx.AsInt(d.L)
			return TupleV{m.intVal(q, intKind{64, true}), int64(0), true}
		}
		c := m.ctx
		var lo, hi *big.Rat
		if d.L.Lo != nil {
			lo = new(big.Rat).Sub(d.L.Lo, sym.R(1))
		}
		if d.L.Hi != nil {
			hi = new(big.Rat).Add(d.L.Hi, sym.R(1))
		}
		q := c.UF("decround", sym.SInt, lo, hi, d.L)
		half := c.Const(sym.SReal, big.NewRat(1, 2))
		qr := c.ToReal(q)
		c.Side = append(c.Side, c.Le(c.Sub(d.L, half), qr), c.Le(qr, c.Add(d.L, half)))
		m.stub("decimal.Int64(0) of symbolic = integer q with |q-v| <= 1/2 (UF of v)")
		return TupleV{q, int64(0), true}
	}
}

func (m *Machine) stub(s string) {
	m.res.Stubs = appendUnique(m.res.Stubs, s)
}
