package exec

import (
	"fmt"
	"os"
	"sync"
	"time"

	"golang.org/x/tools/go/ssa"

	"gosymx/smt"
)

type ExploreStats struct {
	Paths      int
	ByStatus   map[string]int
	Queries    int
	SolverTime time.Duration
	Wall       time.Duration
	Results    []*PathResult
	Truncated  bool
}

// Explore runs every feasible path of entry with nWorkers solver processes.
// maxPaths bounds the exploration (0 = unbounded); exceeding it sets Truncated.
func Explore(w *World, cfg *Config, entry *ssa.Function, nWorkers, maxPaths, timeoutMs int, solverKind string, logf func(*PathResult)) (*ExploreStats, error) {
	budget := cfg.JobBudget
	st := &ExploreStats{ByStatus: map[string]int{}}
	t0 := time.Now()
	var mu sync.Mutex
	cond := sync.NewCond(&mu)
	stack := [][]Dec{nil}
	active := 0
	started := 0
	var firstErr error
	var wg sync.WaitGroup
	for i := 0; i < nWorkers; i++ {
		wg.Add(1)
		go func(wid int) {
			defer wg.Done()
			solver, err := smt.New(solverKind, timeoutMs)
			if err != nil {
				mu.Lock()
				firstErr = err
				mu.Unlock()
				return
			}
			defer func() { solver.Close() }()
			oneshot, err := smt.New(solverKind, timeoutMs)
			if err != nil {
				mu.Lock()
				firstErr = err
				mu.Unlock()
				return
			}
			defer func() { oneshot.Close() }()
			if p := os.Getenv("GOSYMX_SMTLOG"); p != "" {
				if f, err := os.Create(fmt.Sprintf("%s.%d", p, wid)); err == nil {
					solver.Log = f
					defer f.Close()
				}
			}
			for {
				mu.Lock()
				for len(stack) == 0 && active > 0 {
					cond.Wait()
				}
				if len(stack) == 0 && active == 0 {
					mu.Unlock()
					cond.Broadcast()
					return
				}
				if (maxPaths > 0 && started >= maxPaths) || (budget > 0 && time.Since(t0) > budget) {
					st.Truncated = true
					stack = nil
					mu.Unlock()
					cond.Broadcast()
					if active == 0 {
						return
					}
					mu.Lock()
					for active > 0 {
						cond.Wait()
					}
					mu.Unlock()
					return
				}
				prefix := stack[len(stack)-1]
				stack = stack[:len(stack)-1]
				active++
				started++
				mu.Unlock()

				res := RunPath(w, cfg, solver, oneshot, entry, prefix)
				if solver.Dead() {
					solver.Close()
					solver, _ = smt.New(solverKind, timeoutMs)
				}
				if oneshot.Dead() {
					oneshot.Close()
					oneshot, _ = smt.New(solverKind, timeoutMs)
				}

				mu.Lock()
				active--
				if !st.Truncated {
					stack = append(stack, res.Children...)
				}
				st.Paths++
				st.ByStatus[res.Status.String()]++
				st.Queries += res.Queries
				st.SolverTime += res.SolverTime
				st.Results = append(st.Results, res)
				if logf != nil {
					logf(res)
				}
				mu.Unlock()
				cond.Broadcast()
			}
		}(i)
	}
	wg.Wait()
	st.Wall = time.Since(t0)
	return st, firstErr
}
