package exec

import (
	"gosymx/sym"
)

// SiteDef is a known-finding site predicate: on entry of Func, the excuse
// condition (a predicate over the call's arguments) is assumed false.
type SiteDef struct {
	Func   string
	Excuse func(m *Machine, args []Value) *sym.Bool // the defect's input class at this site
	Text   string
}

var Sites = map[string]SiteDef{
	// triSign(1) == 0: productsAreEqual is wrong only if some factor equals 1.
	"triSign1": {
		Func: "productsAreEqual",
		Text: "a==1 || b==1 || c==1 || d==1 at internal_clipper.go:productsAreEqual",
		Excuse: func(m *Machine, args []Value) *sym.Bool {
			k := intKind{64, true}
			one := m.ctx.ConstI(1)
			var ds []*sym.Bool
			for _, a := range args[:4] {
				ds = append(ds, m.ctx.Eq(m.lin(a, k), one))
			}
			return m.ctx.OrN(ds)
		},
	},
}

// SiteAssumeFor builds the Config.SiteAssume map for the named sites.
func SiteAssumeFor(names []string) map[string]func(m *Machine, args []Value) *sym.Bool {
	out := map[string]func(m *Machine, args []Value) *sym.Bool{}
	for _, n := range names {
		sd, ok := Sites[n]
		if !ok {
			panic("unknown site " + n)
		}
		ex := sd.Excuse
		out[sd.Func] = func(m *Machine, args []Value) *sym.Bool {
			return m.ctx.Not(ex(m, args))
		}
	}
	return out
}
