package exec

import (
	"math/big"
	"strings"

	"gosymx/sym"
)

// SiteDef is a known-finding site predicate: on entry of Func, the excuse
// condition (a predicate over the call's arguments) is assumed false.
type SiteDef struct {
	Func   string
	Excuse func(m *Machine, args []Value) *sym.Bool // the defect's input class at this site
	Text   string
}

var Sites = map[string]SiteDef{
	// triSign(1) == 0: productsAreEqual is wrong only if some factor equals 1.
	"triSign1": {
		Func: "productsAreEqual",
		Text: "a==1 || b==1 || c==1 || d==1 at internal_clipper.go:productsAreEqual",
		Excuse: func(m *Machine, args []Value) *sym.Bool {
			k := intKind{64, true}
			one := m.ctx.ConstI(1)
			var ds []*sym.Bool
			for _, a := range args[:4] {
				ds = append(ds, m.ctx.Eq(m.lin(a, k), one))
			}
			return m.ctx.OrN(ds)
		},
	},
}

// SiteAssumeFor builds the Config.SiteAssume map for the named sites.
func SiteAssumeFor(names []string) map[string]func(m *Machine, args []Value) *sym.Bool {
	out := map[string]func(m *Machine, args []Value) *sym.Bool{}
	for _, n := range names {
		sd, ok := Sites[n]
		if !ok {
			panic("unknown site " + n)
		}
		ex := sd.Excuse
		out[sd.Func] = func(m *Machine, args []Value) *sym.Bool {
			return m.ctx.Not(ex(m, args))
		}
	}
	return out
}

// SummaryDefs: function summaries that may replace a real function in strict
// runs. Each is justified by a lemma harness that the same check discharges on
// the same tree (named in Lemma), so a change inside the summarised function
// still fails the check.
type SummaryDef struct {
	Lemma string
	Text  string
	Fn    func(m *Machine, args []Value) Value
}

var SummaryDefs = map[string]SummaryDef{
	// isCollinear(p1, shared, p2) == (exact cross product == 0), valid when no
	// coordinate difference fed to productsAreEqual equals 1 (the triSign known
	// finding); the summary assumes that site predicate itself.
	"isCollinear": {
		Lemma: "H_C14_collinear",
		Text:  "isCollinear(p1,s,p2) := (s.X-p1.X)*(p2.Y-s.Y) == (s.Y-p1.Y)*(p2.X-s.X), assuming no factor equals 1",
		Fn: func(m *Machine, args []Value) Value {
			k := intKind{64, true}
			c := m.ctx
			p1, s, p2 := aggValues(args[0]), aggValues(args[1]), aggValues(args[2])
			a := c.Sub(m.lin(s[0], k), m.lin(p1[0], k))
			b := c.Sub(m.lin(p2[1], k), m.lin(s[1], k))
			cc := c.Sub(m.lin(s[1], k), m.lin(p1[1], k))
			d := c.Sub(m.lin(p2[0], k), m.lin(s[0], k))
			one := c.ConstI(1)
			m.Assume(c.Not(c.OrN([]*sym.Bool{c.Eq(a, one), c.Eq(b, one), c.Eq(cc, one), c.Eq(d, one)})))
			m.res.SiteExcuses = appendUnique(m.res.SiteExcuses, "isCollinear(summary)")
			return m.boolVal(c.Eq(c.Mul(a, b), c.Mul(cc, d)))
		},
	},
}

func init() {
	// PerpendicDistFromLineSqr64 as an uninterpreted non-negative function of
	// its point and (unordered) line points: used to check SimplifyPath64's
	// bookkeeping for every possible kernel. The real kernel is bitwise
	// symmetric in the two line points (|cross| and len^2 are exact integers).
	SummaryDefs["PerpendicDistFromLineSqr64"] = SummaryDef{
		Lemma: "H_C16_kernel",
		Text:  "PerpendicDistFromLineSqr64(pt,l1,l2) := UF(pt,l1,l2) >= 0 (arbitrary kernel)",
		Fn: func(m *Machine, args []Value) Value {
			k := intKind{64, true}
			c := m.ctx
			var ls []*sym.Lin
			for _, a := range args[:3] {
				p := aggValues(a)
				ls = append(ls, m.lin(p[0], k), m.lin(p[1], k))
			}
			r := c.UF("perpdist", sym.SReal, new(big.Rat), nil, ls...)
			m.res.Approx = true
			m.stub("PerpendicDistFromLineSqr64 = uninterpreted non-negative function (bookkeeping jobs only)")
			return m.exactF(r)
		},
	}
}

func init() {
	// The same abstraction plus the one fact about the real kernel that the
	// epsilon = 0 claims need, which H_C16_kernel proves for the real code:
	// the result is zero exactly when the line is degenerate or the three
	// points are exactly collinear.
	SummaryDefs["PerpendicDistFromLineSqr64+zero"] = SummaryDef{
		Lemma: "H_C16_kernel",
		Text:  "PerpendicDistFromLineSqr64(pt,l1,l2) := UF(pt,l1,l2) >= 0 with UF == 0 <=> (l1 == l2 or exact cross product == 0)",
		Fn: func(m *Machine, args []Value) Value {
			k := intKind{64, true}
			c := m.ctx
			var ls []*sym.Lin
			for _, a := range args[:3] {
				p := aggValues(a)
				ls = append(ls, m.lin(p[0], k), m.lin(p[1], k))
			}
			r := c.UF("perpdist", sym.SReal, new(big.Rat), nil, ls...)
			a := c.Sub(ls[0], ls[2])
			b := c.Sub(ls[1], ls[3])
			cc := c.Sub(ls[4], ls[2])
			d := c.Sub(ls[5], ls[3])
			cross := c.Sub(c.Mul(a, d), c.Mul(cc, b))
			zero := c.Or(c.And(c.Eq0(cc), c.Eq0(d)), c.Eq0(cross))
			c.Side = append(c.Side, c.Iff(c.Eq0(r), zero))
			m.res.Approx = true
			m.stub("PerpendicDistFromLineSqr64 = uninterpreted non-negative function that is zero iff degenerate or exactly collinear (lemma H_C16_kernel)")
			return m.exactF(r)
		},
	}
}

func SummariesFor(names []string) map[string]func(m *Machine, args []Value) Value {
	out := map[string]func(m *Machine, args []Value) Value{}
	for _, n := range names {
		sd, ok := SummaryDefs[n]
		if !ok {
			panic("unknown summary " + n)
		}
		if i := strings.IndexByte(n, '+'); i > 0 {
			n = n[:i]
		}
		out[n] = sd.Fn
	}
	return out
}
