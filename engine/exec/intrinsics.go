package exec

import (
	"fmt"
	"go/types"
	"math"
	"math/big"
	"math/bits"
	"regexp"
	"strings"

	"gosymx/smt"

	"golang.org/x/tools/go/ssa"

	"gosymx/sym"
)

type intrinsic = func(m *Machine, fn *ssa.Function, args []Value) Value

var errType = types.Universe.Lookup("error").Type()

var nameRe = regexp.MustCompile(`[^A-Za-z0-9_]`)

func (m *Machine) newNondetName(name string) string {
	return fmt.Sprintf("n%d_%s", len(m.nondets), nameRe.ReplaceAllString(name, "_"))
}

func concStr(m *Machine, v Value) string {
	s, ok := v.(string)
	if !ok {
		m.unsupported("non-constant string argument to intrinsic")
	}
	return s
}

func concI(m *Machine, v Value) int64 {
	i, ok := v.(int64)
	if !ok {
		m.unsupported("non-constant integer argument to intrinsic")
	}
	return i
}

func (w *World) registerIntrinsics() {
	h := map[string]intrinsic{}
	w.harnessIntrinsics = h
	h["vInt"] = func(m *Machine, fn *ssa.Function, a []Value) Value {
		name := m.newNondetName(concStr(m, a[0]))
		lo, hi := concI(m, a[1]), concI(m, a[2])
		if lo > hi {
			m.abort(PathAssumeFalse, "vInt empty range")
		}
		at := m.ctx.NewVar(name, sym.SInt, sym.R(lo), sym.R(hi))
		m.nondets = append(m.nondets, NondetRec{Name: name, Kind: "int", Atom: at})
		if lo == hi {
			return lo
		}
		if cw := m.cfg.ConcreteWitness; cw != nil {
			r, err := smt.ParseNum(cw[len(m.nondets)-1])
			if err != nil {
				m.unsupported("bad concrete witness")
			}
			return r.Num().Int64()
		}
		if m.guide != nil {
			r, err := smt.ParseNum(m.cfg.Guide[len(m.nondets)-1])
			if err != nil {
				m.unsupported("bad guide witness")
			}
			m.guide.Num[name] = r
		}
		return m.ctx.FromAtom(at)
	}
	h["vBool"] = func(m *Machine, fn *ssa.Function, a []Value) Value {
		name := m.newNondetName(concStr(m, a[0]))
		b := m.ctx.BoolVar(name)
		m.nondets = append(m.nondets, NondetRec{Name: name, Kind: "bool", BVar: b})
		if cw := m.cfg.ConcreteWitness; cw != nil {
			return strings.TrimSpace(cw[len(m.nondets)-1]) == "true"
		}
		if m.guide != nil {
			m.guide.Bool[name] = strings.TrimSpace(m.cfg.Guide[len(m.nondets)-1]) == "true"
		}
		return b
	}
	h["vReal"] = func(m *Machine, fn *ssa.Function, a []Value) Value {
		name := m.newNondetName(concStr(m, a[0]))
		lo, ok1 := a[1].(float64)
		hi, ok2 := a[2].(float64)
		if !ok1 || !ok2 {
			m.unsupported("vReal bounds")
		}
		at := m.ctx.NewVar(name, sym.SReal, ratOfFloat(lo), ratOfFloat(hi))
		m.nondets = append(m.nondets, NondetRec{Name: name, Kind: "real", Atom: at})
		m.res.Approx = true // a real need not be a float64
		return m.exactF(m.ctx.FromAtom(at))
	}
	// vFloatInt: a float64 that holds an integer value in [lo,hi] (|.|<=2^53): exact.
	h["vFloatInt"] = func(m *Machine, fn *ssa.Function, a []Value) Value {
		name := m.newNondetName(concStr(m, a[0]))
		lo, hi := concI(m, a[1]), concI(m, a[2])
		at := m.ctx.NewVar(name, sym.SInt, sym.R(lo), sym.R(hi))
		m.nondets = append(m.nondets, NondetRec{Name: name, Kind: "int", Atom: at})
		return m.exactF(m.ctx.FromAtom(at))
	}
	h["vAssume"] = func(m *Machine, fn *ssa.Function, a []Value) Value {
		switch c := a[0].(type) {
		case bool:
			if !c {
				m.abort(PathAssumeFalse, "assume(false)")
			}
		case *sym.Bool:
			m.Assume(c)
			// cheap feasibility check keeps infeasible paths from running on
			if m.depth >= len(m.prefix) {
				if r := m.query(m.ctx.True); r.String() == "unsat" {
					m.abort(PathInfeasible, "assume made PC unsat")
				}
			}
		}
		return nil
	}
	// vKnown(key, cond): cond describes the input class of a known finding.
	// With the finding excused (Config.Excuse[key]) it is assumed away;
	// otherwise it is a no-op.
	h["vKnown"] = func(m *Machine, fn *ssa.Function, a []Value) Value {
		key := concStr(m, a[0])
		m.res.KnownKeys = appendUnique(m.res.KnownKeys, key)
		if m.cfg.Excuse[key] {
			return h["vAssume"](m, fn, []Value{m.boolVal(m.ctx.Not(m.boolTerm(a[1])))})
		}
		return nil
	}
	h["vAssert"] = func(m *Machine, fn *ssa.Function, a []Value) Value {
		m.Assert(concStr(m, a[0]), m.boolTerm(a[1]))
		return nil
	}
	h["vCover"] = func(m *Machine, fn *ssa.Function, a []Value) Value {
		m.res.Covers = appendUnique(m.res.Covers, concStr(m, a[0]))
		return nil
	}
	h["vObserve"] = func(m *Machine, fn *ssa.Function, a []Value) Value {
		m.res.Observes = append(m.res.Observes, ObserveRec{ID: concStr(m, a[0]), Term: a[1]})
		return nil
	}
	h["vObserveB"] = h["vObserve"]
	h["vAnd"] = func(m *Machine, fn *ssa.Function, a []Value) Value {
		return m.boolVal(m.ctx.And(m.boolTerm(a[0]), m.boolTerm(a[1])))
	}
	h["vOr"] = func(m *Machine, fn *ssa.Function, a []Value) Value {
		return m.boolVal(m.ctx.Or(m.boolTerm(a[0]), m.boolTerm(a[1])))
	}
	h["vImplies"] = func(m *Machine, fn *ssa.Function, a []Value) Value {
		return m.boolVal(m.ctx.Or(m.ctx.Not(m.boolTerm(a[0])), m.boolTerm(a[1])))
	}
	h["vIte"] = func(m *Machine, fn *ssa.Function, a []Value) Value {
		k := intKind{64, true}
		return m.intVal(m.ctx.Ite(m.boolTerm(a[0]), m.lin(a[1], k), m.lin(a[2], k)), k)
	}
	h["vIteB"] = func(m *Machine, fn *ssa.Function, a []Value) Value {
		return m.boolVal(m.ctx.BIte(m.boolTerm(a[0]), m.boolTerm(a[1]), m.boolTerm(a[2])))
	}
	// vWideEq(hi, lo, t2, t1, t0): hi*2^64 + lo == t2*2^64 + t1*2^32 + t0 over
	// the mathematical values of the uint64 arguments.
	h["vWideEq"] = func(m *Machine, fn *ssa.Function, a []Value) Value {
		k := intKind{64, false}
		c := m.ctx
		p64, p32 := sym.Pow2(64), sym.Pow2(32)
		lhs := c.Add(c.Scale(m.lin(a[0], k), p64), m.lin(a[1], k))
		rhs := c.Add(c.Add(c.Scale(m.lin(a[2], k), p64), c.Scale(m.lin(a[3], k), p32)), m.lin(a[4], k))
		return m.boolVal(c.Eq(lhs, rhs))
	}
	// vMul128Check(a, b, hi, lo): hi*2^64 + lo == a*b over mathematical integers.
	h["vMul128Check"] = func(m *Machine, fn *ssa.Function, a []Value) Value {
		k := intKind{64, false}
		c := m.ctx
		lhs := c.Add(c.Scale(m.lin(a[2], k), sym.Pow2(64)), m.lin(a[3], k))
		return m.boolVal(c.Eq(lhs, c.Mul(m.lin(a[0], k), m.lin(a[1], k))))
	}
	h["vSymbolic"] = func(m *Machine, fn *ssa.Function, a []Value) Value { return true }
	h["vFreeze"] = func(m *Machine, fn *ssa.Function, a []Value) Value {
		freezeValue(a[0], concStr(m, a[1]), map[*Cell]bool{})
		return nil
	}
	// vCatch runs f and reports whether it panicked and with which message.
	h["vCatch"] = func(m *Machine, fn *ssa.Function, a []Value) (ret Value) {
		depth, nfn := m.callDepth, len(m.curFn)
		defer func() {
			if r := recover(); r != nil {
				if gp, ok := r.(goPanicT); ok {
					m.callDepth, m.curFn = depth, m.curFn[:nfn]
					msg := gp.msg
					if gp.val != nil {
						msg = m.describePanic(gp.val)
					}
					ret = TupleV{true, msg}
					return
				}
				panic(r)
			}
		}()
		m.callValue(a[0], nil, nil)
		return TupleV{false, ""}
	}
	// vConcretize forces a symbolic integer to a concrete value by forking.
	h["vConcretize"] = func(m *Machine, fn *ssa.Function, a []Value) Value {
		return m.concreteInt(a[0], "vConcretize")
	}
	// vUF: uninterpreted function over integers, for stubbing kernels.
	h["vUF3"] = func(m *Machine, fn *ssa.Function, a []Value) Value {
		k := intKind{64, true}
		name := concStr(m, a[0])
		r := m.ctx.UF(name, sym.SReal, new(big.Rat), nil, m.lin(a[1], k), m.lin(a[2], k), m.lin(a[3], k))
		m.res.Approx = true
		return m.exactF(r)
	}

	x := map[string]intrinsic{}
	w.intrinsics = x
	f1 := func(name string, conc func(float64) float64, symf func(m *Machine, f *FSym) Value) {
		x["math."+name] = func(m *Machine, fn *ssa.Function, a []Value) Value {
			switch v := a[0].(type) {
			case float64:
				return conc(v)
			case *FSym:
				if symf == nil {
					m.unsupported("math." + name + " of symbolic value")
				}
				return symf(m, v)
			}
			panic("math." + name)
		}
	}
	f1("Abs", math.Abs, func(m *Machine, f *FSym) Value {
		return m.fabs(f)
	})
	rnd := func(kind sym.AtomKind) func(m *Machine, f *FSym) Value {
		return func(m *Machine, f *FSym) Value {
			return m.fval(m.ctx.ToReal(m.ctx.Round(kind, m.val(f))), f.Exact)
		}
	}
	f1("Floor", math.Floor, rnd(sym.AFloor))
	f1("Ceil", math.Ceil, rnd(sym.ACeil))
	f1("Trunc", math.Trunc, rnd(sym.ATrunc))
	f1("Round", math.Round, rnd(sym.ARoundA))
	f1("Sqrt", math.Sqrt, nil)
	f1("Sin", math.Sin, nil)
	f1("Cos", math.Cos, nil)
	f1("Acos", math.Acos, nil)
	x["math.IsNaN"] = func(m *Machine, fn *ssa.Function, a []Value) Value {
		if f, ok := a[0].(float64); ok {
			return math.IsNaN(f)
		}
		return false
	}
	x["math.IsInf"] = func(m *Machine, fn *ssa.Function, a []Value) Value {
		if f, ok := a[0].(float64); ok {
			return math.IsInf(f, int(concI(m, a[1])))
		}
		return false
	}
	x["math.Inf"] = func(m *Machine, fn *ssa.Function, a []Value) Value {
		return math.Inf(int(concI(m, a[0])))
	}
	x["math.Modf"] = func(m *Machine, fn *ssa.Function, a []Value) Value {
		switch v := a[0].(type) {
		case float64:
			i, f := math.Modf(v)
			return TupleV{i, f}
		case *FSym:
			vl := m.val(v)
			ip := m.ctx.ToReal(m.ctx.Round(sym.ATrunc, vl))
			return TupleV{m.fval(ip, v.Exact), m.fval(m.ctx.Sub(vl, ip), v.Exact)}
		}
		panic("Modf")
	}
	f2 := func(name string, conc func(a, b float64) float64) {
		x["math."+name] = func(m *Machine, fn *ssa.Function, a []Value) Value {
			p, ok1 := a[0].(float64)
			q, ok2 := a[1].(float64)
			if ok1 && ok2 {
				return conc(p, q)
			}
			if name == "Min" || name == "Max" {
				if _, sp := isSpecial(a[0]); !sp {
					if _, sp := isSpecial(a[1]); !sp {
						pl, ql := m.fl(a[0]), m.fl(a[1])
						var c *sym.Bool
						if name == "Min" {
							c = m.ctx.Le(pl, ql)
						} else {
							c = m.ctx.Le(ql, pl)
						}
						return m.fval(m.ctx.Ite(c, pl, ql), false)
					}
				}
			}
			m.unsupported("math." + name + " of symbolic value")
			return nil
		}
	}
	f2("Pow", math.Pow)
	f2("Atan2", math.Atan2)
	f2("Min", math.Min)
	f2("Max", math.Max)
	f2("Hypot", math.Hypot)

	x["math/bits.Len"] = func(m *Machine, fn *ssa.Function, a []Value) Value {
		return int64(bits.Len(uint(concI(m, a[0]))))
	}
	x["math/bits.Len64"] = func(m *Machine, fn *ssa.Function, a []Value) Value {
		return int64(bits.Len64(uint64(concI(m, a[0]))))
	}
	x["math/bits.Len32"] = func(m *Machine, fn *ssa.Function, a []Value) Value {
		return int64(bits.Len32(uint32(concI(m, a[0]))))
	}

	errObj := func(m *Machine, msg string) Value {
		return IfaceV{T: errType, V: &ErrObj{Msg: msg}}
	}
	x["errors.New"] = func(m *Machine, fn *ssa.Function, a []Value) Value {
		return errObj(m, concStr(m, a[0]))
	}
	x["fmt.Errorf"] = func(m *Machine, fn *ssa.Function, a []Value) Value {
		return errObj(m, concStr(m, a[0]))
	}
	x["fmt.Sprintf"] = func(m *Machine, fn *ssa.Function, a []Value) Value { return "" }
	x["fmt.Sprint"] = func(m *Machine, fn *ssa.Function, a []Value) Value { return "" }
	x["fmt.Println"] = func(m *Machine, fn *ssa.Function, a []Value) Value { return TupleV{int64(0), IfaceV{}} }
	x["fmt.Printf"] = x["fmt.Println"]

	x["sort.Slice"] = sortSlice
	w.registerDecimal()
}

func freezeValue(v Value, tag string, seen map[*Cell]bool) {
	switch x := v.(type) {
	case IfaceV:
		freezeValue(x.V, tag, seen)
	case SliceV:
		for i := 0; i < x.Cap && x.Back != nil; i++ {
			freezeCell(x.Back[x.Off+i], tag, seen)
		}
	case StructV:
		for _, f := range x {
			freezeValue(f, tag, seen)
		}
	case ArrayV:
		for _, f := range x {
			freezeValue(f, tag, seen)
		}
	}
}

func freezeCell(c *Cell, tag string, seen map[*Cell]bool) {
	if c == nil || seen[c] {
		return
	}
	seen[c] = true
	if c.Kids != nil {
		for _, k := range c.Kids {
			freezeCell(k, tag, seen)
		}
		return
	}
	c.Frozen = true
	c.Tag = tag
	// slices of slices: freeze the inner backing arrays too
	freezeValue(c.V, tag, seen)
}

// sortSlice models sort.Slice by running the toolchain's pdqsort_func SSA with
// the caller's less closure and a native element swapper.
func sortSlice(m *Machine, fn *ssa.Function, a []Value) Value {
	iv := a[0].(IfaceV)
	sl, ok := iv.V.(SliceV)
	if !ok {
		m.goPanic("sort.Slice: not a slice")
	}
	swap := &Native{Name: "swapper", Fn: func(m *Machine, args []Value) Value {
		i := m.concreteIndex(args[0], sl.Len)
		j := m.concreteIndex(args[1], sl.Len)
		ci, cj := sl.Back[sl.Off+i], sl.Back[sl.Off+j]
		vi, vj := loadCell(ci), loadCell(cj)
		m.store(ci, vj)
		m.store(cj, vi)
		return nil
	}}
	sortPkg := m.W.Prog.ImportedPackage("sort")
	if sortPkg == nil {
		m.unsupported("package sort not loaded")
	}
	pdq := sortPkg.Func("pdqsort_func")
	if pdq == nil || len(pdq.Blocks) == 0 {
		m.unsupported("sort.pdqsort_func has no body")
	}
	n := int64(sl.Len)
	limit := int64(bits.Len(uint(n)))
	m.call(pdq, []Value{StructV{a[1], swap}, int64(0), n, limit})
	return nil
}
