package sym

import (
	"fmt"
	"math/big"
	"strings"
)

// Emitter turns terms into SMT-LIB2 text, declaring atoms on first use. Every
// compound atom becomes a define-fun so sharing is preserved. All declarations
// are written to Decls (to be sent before the assertion that needs them).
type Emitter struct {
	declared map[int]bool
	names    map[string]bool
	Decls    []string // pending declarations/definitions, in dependency order
	NDecl    int
	All      []string // every declaration ever taken (for dumping standalone queries)
}

func NewEmitter() *Emitter { return &Emitter{declared: map[int]bool{}, names: map[string]bool{}} }

func smtNum(r *big.Rat, s Sort) string {
	neg := r.Sign() < 0
	a := new(big.Rat).Abs(r)
	var str string
	if a.IsInt() {
		str = a.Num().String()
		if s == SReal {
			str += ".0"
		}
	} else {
		str = fmt.Sprintf("(/ %s.0 %s.0)", a.Num().String(), a.Denom().String())
	}
	if neg {
		return "(- " + str + ")"
	}
	return str
}

func atomName(a *Atom) string {
	if a.Kind == AVar {
		return a.Name
	}
	return fmt.Sprintf("a%d", a.ID)
}

func sortName(s Sort) string {
	switch s {
	case SInt:
		return "Int"
	case SReal:
		return "Real"
	}
	return "Bool"
}

func (e *Emitter) declAtom(a *Atom) {
	if e.declared[a.ID] {
		return
	}
	e.declared[a.ID] = true
	switch a.Kind {
	case AVar:
		e.Decls = append(e.Decls, fmt.Sprintf("(declare-const %s %s)", a.Name, sortName(a.Sort)))
		if a.Lo != nil {
			e.Decls = append(e.Decls, fmt.Sprintf("(assert (<= %s %s))", smtNum(a.Lo, a.Sort), a.Name))
		}
		if a.Hi != nil {
			e.Decls = append(e.Decls, fmt.Sprintf("(assert (<= %s %s))", a.Name, smtNum(a.Hi, a.Sort)))
		}
		e.NDecl++
		return
	case AUF:
		// declared as a fresh constant per distinct argument tuple (hash-consed),
		// plus functional consistency is syntactic: equal keys -> same atom. To
		// get congruence for semantically equal but syntactically different
		// arguments we declare a real function.
		var args []string
		var sorts []string
		for _, x := range a.Args {
			args = append(args, e.Lin(x))
			sorts = append(sorts, sortName(x.Sort))
		}
		fn := "uf_" + a.Name
		if !e.names[fn] {
			e.names[fn] = true
			e.Decls = append(e.Decls, fmt.Sprintf("(declare-fun %s (%s) %s)", fn, strings.Join(sorts, " "), sortName(a.Sort)))
		}
		e.Decls = append(e.Decls, fmt.Sprintf("(define-fun %s () %s (%s %s))", atomName(a), sortName(a.Sort), fn, strings.Join(args, " ")))
		if a.Lo != nil {
			e.Decls = append(e.Decls, fmt.Sprintf("(assert (<= %s %s))", smtNum(a.Lo, a.Sort), atomName(a)))
		}
		if a.Hi != nil {
			e.Decls = append(e.Decls, fmt.Sprintf("(assert (<= %s %s))", atomName(a), smtNum(a.Hi, a.Sort)))
		}
		e.NDecl++
		return
	}
	var body string
	switch a.Kind {
	case AMul:
		body = fmt.Sprintf("(* %s %s)", e.Lin(a.A), e.Lin(a.B))
	case AFDiv:
		body = fmt.Sprintf("(div %s %s)", e.Lin(a.A), smtNum(a.K, SInt))
	case ATDiv:
		x := e.Lin(a.A)
		k := smtNum(a.K, SInt)
		body = fmt.Sprintf("(ite (>= %s 0) (div %s %s) (- (div (- %s) %s)))", x, x, k, x, k)
	case AFMod:
		body = fmt.Sprintf("(mod %s %s)", e.Lin(a.A), smtNum(a.K, SInt))
	case ATMod:
		x := e.Lin(a.A)
		k := smtNum(a.K, SInt)
		body = fmt.Sprintf("(ite (>= %s 0) (mod %s %s) (- (mod (- %s) %s)))", x, x, k, x, k)
	case AIDiv:
		x, y := e.Lin(a.A), e.Lin(a.B)
		// truncating: sign(x)*sign(y) * (|x| div |y|)
		body = fmt.Sprintf("(let ((q (div (abs %s) (abs %s)))) (ite (= (>= %s 0) (>= %s 0)) q (- q)))", x, y, x, y)
	case AIte:
		body = fmt.Sprintf("(ite %s %s %s)", e.Bool(a.Cond), e.Lin(a.A), e.Lin(a.B))
	case ARDiv:
		body = fmt.Sprintf("(/ %s %s)", e.Lin(a.A), e.Lin(a.B))
	case AFloor:
		body = fmt.Sprintf("(to_int %s)", e.Lin(a.A))
	case ACeil:
		body = fmt.Sprintf("(- (to_int (- %s)))", e.Lin(a.A))
	case ATrunc:
		x := e.Lin(a.A)
		body = fmt.Sprintf("(ite (>= %s 0.0) (to_int %s) (- (to_int (- %s))))", x, x, x)
	case ARoundA:
		x := e.Lin(a.A)
		body = fmt.Sprintf("(ite (>= %s 0.0) (to_int (+ %s 0.5)) (- (to_int (+ (- %s) 0.5))))", x, x, x)
	default:
		panic("emit: unknown atom kind")
	}
	e.Decls = append(e.Decls, fmt.Sprintf("(define-fun %s () %s %s)", atomName(a), sortName(a.Sort), body))
	e.NDecl++
}

func (e *Emitter) Lin(l *Lin) string {
	if len(l.Ts) == 0 {
		return smtNum(l.C, l.Sort)
	}
	var parts []string
	for _, t := range l.Ts {
		e.declAtom(t.A)
		n := atomName(t.A)
		if l.Sort == SReal && t.A.Sort == SInt {
			n = "(to_real " + n + ")"
		}
		if t.K.Cmp(ratOne) == 0 {
			parts = append(parts, n)
		} else {
			parts = append(parts, fmt.Sprintf("(* %s %s)", smtNum(t.K, l.Sort), n))
		}
	}
	if l.C.Sign() != 0 {
		parts = append(parts, smtNum(l.C, l.Sort))
	}
	if len(parts) == 1 {
		return parts[0]
	}
	return "(+ " + strings.Join(parts, " ") + ")"
}

func (e *Emitter) Bool(b *Bool) string {
	switch b.Kind {
	case BConst:
		if b.Val {
			return "true"
		}
		return "false"
	case BVar:
		if !e.names["bv:"+b.Name] {
			e.names["bv:"+b.Name] = true
			e.Decls = append(e.Decls, fmt.Sprintf("(declare-const %s Bool)", b.Name))
		}
		return b.Name
	case BLe0:
		return fmt.Sprintf("(<= %s %s)", e.Lin(b.L), smtNum(ratZero, b.L.Sort))
	case BLt0:
		return fmt.Sprintf("(< %s %s)", e.Lin(b.L), smtNum(ratZero, b.L.Sort))
	case BEq0:
		return fmt.Sprintf("(= %s %s)", e.Lin(b.L), smtNum(ratZero, b.L.Sort))
	case BNot:
		return "(not " + e.Bool(b.Args[0]) + ")"
	case BAnd, BOr:
		op := "and"
		if b.Kind == BOr {
			op = "or"
		}
		parts := make([]string, len(b.Args))
		for i, a := range b.Args {
			parts[i] = e.Bool(a)
		}
		return "(" + op + " " + strings.Join(parts, " ") + ")"
	}
	panic("emit: bad bool")
}

// TakeDecls returns and clears the pending declarations.
func (e *Emitter) TakeDecls() []string {
	d := e.Decls
	e.Decls = nil
	e.All = append(e.All, d...)
	return d
}
