package sym

import (
	"fmt"
	"math/big"
)

// Model assigns values to variables (by name). Missing variables make
// evaluation fail (ok=false).
type Model struct {
	Num  map[string]*big.Rat
	Bool map[string]bool
	memo map[int]*big.Rat
}

func NewModel() *Model {
	return &Model{Num: map[string]*big.Rat{}, Bool: map[string]bool{}, memo: map[int]*big.Rat{}}
}

func (m *Model) EvalLin(l *Lin) (*big.Rat, bool) {
	r := new(big.Rat).Set(l.C)
	for _, t := range l.Ts {
		v, ok := m.EvalAtom(t.A)
		if !ok {
			return nil, false
		}
		r.Add(r, new(big.Rat).Mul(t.K, v))
	}
	return r, true
}

func (m *Model) EvalAtom(a *Atom) (*big.Rat, bool) {
	if v, ok := m.memo[a.ID]; ok {
		return v, true
	}
	var res *big.Rat
	switch a.Kind {
	case AVar:
		v, ok := m.Num[a.Name]
		if !ok {
			return nil, false
		}
		res = v
	case AMul:
		x, ok1 := m.EvalLin(a.A)
		y, ok2 := m.EvalLin(a.B)
		if !ok1 || !ok2 {
			return nil, false
		}
		res = new(big.Rat).Mul(x, y)
	case AFDiv, ATDiv, AFMod, ATMod:
		x, ok := m.EvalLin(a.A)
		if !ok {
			return nil, false
		}
		q := new(big.Rat).Quo(x, a.K)
		var qi *big.Rat
		if a.Kind == AFDiv || a.Kind == AFMod {
			qi = floorRat(q)
		} else {
			qi = truncRat(q)
		}
		if a.Kind == AFDiv || a.Kind == ATDiv {
			res = qi
		} else {
			res = new(big.Rat).Sub(x, new(big.Rat).Mul(qi, a.K))
		}
	case AIDiv:
		x, ok1 := m.EvalLin(a.A)
		y, ok2 := m.EvalLin(a.B)
		if !ok1 || !ok2 || y.Sign() == 0 {
			return nil, false
		}
		res = truncRat(new(big.Rat).Quo(x, y))
	case AIte:
		c, ok := m.EvalBool(a.Cond)
		if !ok {
			return nil, false
		}
		if c {
			return m.EvalLin(a.A)
		}
		return m.EvalLin(a.B)
	case ARDiv:
		x, ok1 := m.EvalLin(a.A)
		y, ok2 := m.EvalLin(a.B)
		if !ok1 || !ok2 || y.Sign() == 0 {
			return nil, false
		}
		res = new(big.Rat).Quo(x, y)
	case AFloor, ACeil, ATrunc, ARoundA:
		x, ok := m.EvalLin(a.A)
		if !ok {
			return nil, false
		}
		switch a.Kind {
		case AFloor:
			res = floorRat(x)
		case ACeil:
			res = ceilRat(x)
		case ATrunc:
			res = truncRat(x)
		default:
			res = roundAwayRat(x)
		}
	default:
		return nil, false
	}
	m.memo[a.ID] = res
	return res, true
}

func (m *Model) EvalBool(b *Bool) (bool, bool) {
	switch b.Kind {
	case BConst:
		return b.Val, true
	case BVar:
		v, ok := m.Bool[b.Name]
		return v, ok
	case BLe0, BLt0, BEq0:
		v, ok := m.EvalLin(b.L)
		if !ok {
			return false, false
		}
		switch b.Kind {
		case BLe0:
			return v.Sign() <= 0, true
		case BLt0:
			return v.Sign() < 0, true
		default:
			return v.Sign() == 0, true
		}
	case BNot:
		v, ok := m.EvalBool(b.Args[0])
		return !v, ok
	case BAnd:
		for _, a := range b.Args {
			v, ok := m.EvalBool(a)
			if !ok {
				return false, false
			}
			if !v {
				return false, true
			}
		}
		return true, true
	case BOr:
		for _, a := range b.Args {
			v, ok := m.EvalBool(a)
			if !ok {
				return false, false
			}
			if v {
				return true, true
			}
		}
		return false, true
	}
	panic(fmt.Sprintf("eval bool kind %d", b.Kind))
}
