// Package smt drives one long-lived solver process over stdin/stdout.
package smt

import (
	"bufio"
	"fmt"
	"io"
	"os/exec"
	"strings"
	"time"
)

type Result int

const (
	Unsat Result = iota
	Sat
	Unknown
)

func (r Result) String() string { return [...]string{"unsat", "sat", "unknown"}[r] }

type Solver struct {
	Name      string
	cmd       *exec.Cmd
	in        io.WriteCloser
	out       *bufio.Reader
	lines     chan string
	dead      bool
	Kills     int
	TimeoutMs int
	Queries   int
	Time      time.Duration
	Log       io.Writer // optional transcript
	Errors    int
}

// Kinds: "z3-new" (default, z3 5.1.0), "z3" (4.8.12), "cvc5".
func New(kind string, timeoutMs int) (*Solver, error) {
	var cmd *exec.Cmd
	switch kind {
	case "", "z3-new":
		kind = "z3-new"
		cmd = exec.Command("z3-new", "-in", "-smt2")
	case "z3":
		cmd = exec.Command("z3", "-in", "-smt2")
	case "cvc5":
		cmd = exec.Command("cvc5", "--incremental", "--lang=smt2", "--produce-models", fmt.Sprintf("--tlimit-per=%d", timeoutMs))
	default:
		return nil, fmt.Errorf("unknown solver %q", kind)
	}
	in, err := cmd.StdinPipe()
	if err != nil {
		return nil, err
	}
	out, err := cmd.StdoutPipe()
	if err != nil {
		return nil, err
	}
	cmd.Stderr = cmd.Stdout
	if err := cmd.Start(); err != nil {
		return nil, err
	}
	s := &Solver{Name: kind, cmd: cmd, in: in, out: bufio.NewReaderSize(out, 1<<16), TimeoutMs: timeoutMs, lines: make(chan string, 1024)}
	go func() {
		for {
			line, err := s.out.ReadString('\n')
			if line != "" {
				s.lines <- line
			}
			if err != nil {
				close(s.lines)
				return
			}
		}
	}()
	s.prelude()
	return s, nil
}

func (s *Solver) prelude() {
	if s.Name == "cvc5" {
		s.Send("(set-logic ALL)")
	} else {
		s.Send("(set-option :produce-models true)")
		s.Send(fmt.Sprintf("(set-option :timeout %d)", s.TimeoutMs))
	}
}

// Dead reports that the solver process was killed after ignoring its timeout.
func (s *Solver) Dead() bool { return s.dead }

func (s *Solver) Send(line string) {
	if s.dead {
		return
	}
	if s.Log != nil {
		fmt.Fprintln(s.Log, line)
	}
	io.WriteString(s.in, line)
	io.WriteString(s.in, "\n")
}

// Reset clears all assertions and declarations.
func (s *Solver) Reset() {
	s.Send("(reset)")
	s.prelude()
}

func (s *Solver) Push() { s.Send("(push 1)") }
func (s *Solver) Pop()  { s.Send("(pop 1)") }

func (s *Solver) Assert(expr string) { s.Send("(assert " + expr + ")") }

// sync: send an echo marker and read until it; returns the lines before it.
// If the solver does not answer within the hard limit it is killed (z3 can
// ignore :timeout inside nonlinear arithmetic); the result is then an error.
func (s *Solver) readUntilMarker() []string {
	if s.dead {
		return []string{"(error \"solver dead\")"}
	}
	s.Send(`(echo "@@done")`)
	var lines []string
	hard := time.Duration(2*s.TimeoutMs+10000) * time.Millisecond
	timer := time.NewTimer(hard)
	defer timer.Stop()
	for {
		var line string
		var ok bool
		select {
		case line, ok = <-s.lines:
		case <-timer.C:
			s.dead = true
			s.Kills++
			s.cmd.Process.Kill()
			lines = append(lines, "(error \"solver killed after hard timeout\")")
			return lines
		}
		if !ok {
			s.dead = true
			lines = append(lines, "(error \"solver died\")")
			break
		}
		line = strings.TrimSpace(line)
		if line == "@@done" || line == `"@@done"` {
			break
		}
		if line != "" {
			lines = append(lines, line)
		}
	}
	if s.Log != nil {
		for _, l := range lines {
			fmt.Fprintln(s.Log, "; -> "+l)
		}
	}
	return lines
}

// Check runs check-sat. Any "(error" line makes the result Unknown.
func (s *Solver) Check() Result {
	t0 := time.Now()
	s.Send("(check-sat)")
	lines := s.readUntilMarker()
	s.Queries++
	s.Time += time.Since(t0)
	if s.Log != nil {
		fmt.Fprintf(s.Log, "; time %d us\n", time.Since(t0).Microseconds())
	}
	res := Unknown
	for _, l := range lines {
		if strings.HasPrefix(l, "(error") {
			s.Errors++
			if s.Log != nil {
				fmt.Fprintln(s.Log, "; ERROR "+l)
			}
			return Unknown
		}
	}
	for _, l := range lines {
		switch l {
		case "sat":
			res = Sat
		case "unsat":
			res = Unsat
		}
	}
	return res
}

// GetValues asks for the values of the given expressions after a Sat answer.
// Returns the raw s-expression text of each value.
func (s *Solver) GetValues(exprs []string) ([]string, error) {
	if len(exprs) == 0 {
		return nil, nil
	}
	s.Send("(get-value (" + strings.Join(exprs, " ") + "))")
	lines := s.readUntilMarker()
	txt := strings.Join(lines, " ")
	if strings.Contains(txt, "(error") {
		return nil, fmt.Errorf("get-value: %s", txt)
	}
	sx, _, err := parseSexp(txt, 0)
	if err != nil {
		return nil, err
	}
	lst, ok := sx.([]any)
	if !ok || len(lst) != len(exprs) {
		return nil, fmt.Errorf("get-value: unexpected shape %q", txt)
	}
	out := make([]string, len(exprs))
	for i, p := range lst {
		pair, ok := p.([]any)
		if !ok || len(pair) != 2 {
			return nil, fmt.Errorf("get-value: bad pair in %q", txt)
		}
		out[i] = sexpString(pair[1])
	}
	return out, nil
}

func (s *Solver) Close() {
	if s.dead {
		s.in.Close()
		go s.cmd.Wait()
		return
	}
	s.Send("(exit)")
	s.in.Close()
	done := make(chan struct{})
	go func() { s.cmd.Wait(); close(done) }()
	select {
	case <-done:
	case <-time.After(2 * time.Second):
		s.cmd.Process.Kill()
	}
}

// --- tiny s-expression reader ------------------------------------------------

func parseSexp(s string, i int) (any, int, error) {
	for i < len(s) && (s[i] == ' ' || s[i] == '\n' || s[i] == '\t') {
		i++
	}
	if i >= len(s) {
		return nil, i, fmt.Errorf("eof")
	}
	if s[i] == '(' {
		i++
		var lst []any
		for {
			for i < len(s) && (s[i] == ' ' || s[i] == '\n' || s[i] == '\t') {
				i++
			}
			if i >= len(s) {
				return nil, i, fmt.Errorf("unterminated list")
			}
			if s[i] == ')' {
				return lst, i + 1, nil
			}
			x, j, err := parseSexp(s, i)
			if err != nil {
				return nil, j, err
			}
			lst = append(lst, x)
			i = j
		}
	}
	j := i
	if s[i] == '|' {
		j = i + 1
		for j < len(s) && s[j] != '|' {
			j++
		}
		j++
		return s[i:j], j, nil
	}
	for j < len(s) && s[j] != ' ' && s[j] != ')' && s[j] != '(' && s[j] != '\n' && s[j] != '\t' {
		j++
	}
	return s[i:j], j, nil
}

func sexpString(x any) string {
	switch v := x.(type) {
	case string:
		return v
	case []any:
		parts := make([]string, len(v))
		for i, e := range v {
			parts[i] = sexpString(e)
		}
		return "(" + strings.Join(parts, " ") + ")"
	}
	return "?"
}
