package smt

import (
	"fmt"
	"math/big"
	"strings"
)

// ParseNum parses a numeral value as printed by z3/cvc5 get-value:
// 5, (- 5), 5.0, (/ 1.0 3.0), (- (/ 1 3)), true/false are not handled here.
func ParseNum(s string) (*big.Rat, error) {
	sx, _, err := parseSexp(s, 0)
	if err != nil {
		return nil, err
	}
	return evalNum(sx)
}

func evalNum(x any) (*big.Rat, error) {
	switch v := x.(type) {
	case string:
		str := strings.TrimSuffix(v, "?")
		r, ok := new(big.Rat).SetString(str)
		if !ok {
			return nil, fmt.Errorf("bad numeral %q", v)
		}
		return r, nil
	case []any:
		if len(v) == 0 {
			return nil, fmt.Errorf("empty")
		}
		op, _ := v[0].(string)
		switch op {
		case "-":
			if len(v) == 2 {
				a, err := evalNum(v[1])
				if err != nil {
					return nil, err
				}
				return a.Neg(a), nil
			}
			a, err := evalNum(v[1])
			if err != nil {
				return nil, err
			}
			b, err := evalNum(v[2])
			if err != nil {
				return nil, err
			}
			return a.Sub(a, b), nil
		case "/":
			a, err := evalNum(v[1])
			if err != nil {
				return nil, err
			}
			b, err := evalNum(v[2])
			if err != nil {
				return nil, err
			}
			if b.Sign() == 0 {
				return nil, fmt.Errorf("div by zero in value")
			}
			return a.Quo(a, b), nil
		case "to_real":
			return evalNum(v[1])
		}
		return nil, fmt.Errorf("unsupported value form %v", v)
	}
	return nil, fmt.Errorf("bad value")
}
