package main

import (
	"crypto/sha1"
	"encoding/json"
	"flag"
	"fmt"
	"os"
	"path/filepath"
	"runtime"
	"sort"
	"strconv"
	"strings"
	"time"

	"gosymx/exec"
)

// Job: one harness exploration.
type Job struct {
	Harness   string
	Args      []int64
	Tier      string   // "quick": runs in both tiers; "thorough": thorough only
	Merge     []string // merge-mode functions
	Sites     []string // known-finding site predicates excused in the strict run
	Excuses   []string // vKnown keys excused in the strict run
	KnownOnly bool     // only the non-strict run (detects that a listed known finding is still live)
	NoLive    bool     // only the strict run (the live check is done by a smaller job)
	Summaries []string // function summaries used in the strict run (each backed by a lemma job)
	MaxSteps  int
	MaxLoop   int
	MaxPaths  int
	TimeoutMs int
	Covers    []string // cover points that must be reached on some path
	Bounds    string   // human-readable statement of the bounds of this job
	// PanicOK: panics whose message has this prefix are the expected result
	// (C07 precision range); every other panic is a violation.
	PanicOK string
}

type Property struct {
	ID      string
	Level   string
	Jobs    []Job
	Assumes []string
	Explain string
	// Monitors: executor monitor kinds that count as violations of this property.
	Monitors []string
}

type KnownFinding struct {
	Property  string `json:"property"`
	Status    string `json:"status"` // "known" or "fixed"
	Harness   string `json:"harness,omitempty"`
	Assertion string `json:"assertion,omitempty"`
	Key       string `json:"key,omitempty"` // site name or vKnown key
	Summary   string `json:"summary"`
	Commit    string `json:"commit,omitempty"`
}

type violation struct {
	Job       string
	Assertion string
	Kind      string // "assert", "panic", "hang", "monitor"
	Witness   []string
	Detail    string
	Native    *exec.ReplayResult
	Known     *KnownFinding
	Args      []int64
	Harness   string
}

type jobReport struct {
	Name         string         `json:"job"`
	Bounds       string         `json:"bounds"`
	Strict       bool           `json:"known_findings_excused"`
	Paths        int            `json:"paths"`
	ByStatus     map[string]int `json:"paths_by_status"`
	Obligations  map[string]int `json:"obligations_by_result"`
	Queries      int            `json:"solver_queries"`
	SolverS      float64        `json:"solver_time_s"`
	WallS        float64        `json:"wall_s"`
	Truncated    bool           `json:"truncated"`
	Covers       []string       `json:"cover_points_reached"`
	Inconclusive []string       `json:"inconclusive,omitempty"`
	Rounds       int            `json:"float_rounding_terms"`
	ApproxPaths  int            `json:"paths_with_float_approximation"`
	FeasUnknown  int            `json:"feasibility_unknown"`
	Sites        []string       `json:"site_predicates,omitempty"`
}

func jobName(j Job) string {
	s := j.Harness
	if len(j.Args) > 0 {
		var a []string
		for _, x := range j.Args {
			a = append(a, strconv.FormatInt(x, 10))
		}
		s += "(" + strings.Join(a, ",") + ")"
	}
	return s
}

func loadKnown(path string) []KnownFinding {
	b, err := os.ReadFile(path)
	if err != nil {
		return nil
	}
	var k []KnownFinding
	if err := json.Unmarshal(b, &k); err != nil {
		fmt.Fprintln(os.Stderr, "known_findings.json:", err)
		os.Exit(2)
	}
	return k
}

func cmdCheck(args []string) int {
	fs := flag.NewFlagSet("check", flag.ExitOnError)
	propID := fs.String("property", "", "property id")
	tier := fs.String("tier", envOr("VERIF_TIER", "quick"), "quick|thorough")
	repo := fs.String("repo", envOr("VERIF_REPO", "/repo"), "repository dir")
	vdir := fs.String("verif", envOr("VERIF_DIR", "/verif"), "verif dir")
	workers := fs.Int("workers", runtime.NumCPU(), "workers")
	only := fs.String("only", "", "only jobs whose name contains this")
	fs.Parse(args)
	seed, _ := strconv.Atoi(envOr("VERIF_SEED", "0"))
	prop, ok := properties()[*propID]
	if !ok {
		fmt.Fprintln(os.Stderr, "unknown property", *propID)
		return 2
	}
	t0 := time.Now()
	hdir := filepath.Join(*vdir, "harness")
	w, err := exec.Load(*repo, hdir)
	if err != nil {
		fmt.Fprintln(os.Stderr, "load:", err)
		return 2
	}
	known := loadKnown(filepath.Join(*vdir, "known_findings.json"))
	rp := &exec.Replayer{RepoDir: *repo, HarnessDir: hdir, WorkDir: filepath.Join(*vdir, ".work", fmt.Sprint(os.Getpid()))}
	defer rp.Cleanup()
	if err := rp.Build(w); err != nil {
		fmt.Fprintln(os.Stderr, err)
		return 2
	}

	var reports []jobReport
	var viols []violation
	var samples []any
	funcs := map[string]int{}
	stubs := map[string]bool{}
	totalPaths, totalQueries, validated, mismatches := 0, 0, 0, 0
	var mismatchNotes []string
	inconclusive := 0
	var vacuous []string
	solverTime := 0.0
	sampleEvery := 1

	for _, job := range prop.Jobs {
		if job.Tier == "thorough" && *tier != "thorough" {
			continue
		}
		if *only != "" && !strings.Contains(jobName(job), *only) {
			continue
		}
		entry := w.Entry(job.Harness)
		if entry == nil {
			fmt.Fprintln(os.Stderr, "no such harness:", job.Harness)
			return 2
		}
		// strict run (known findings excused) and, if anything is excused, a
		// second run without excuses to see whether the findings are live.
		runs := []bool{true}
		if len(job.Sites) > 0 || len(job.Excuses) > 0 {
			runs = []bool{true, false}
		}
		if job.KnownOnly {
			runs = []bool{false}
		}
		if job.NoLive {
			runs = []bool{true}
		}
		for _, strict := range runs {
			cfg := &exec.Config{MaxSteps: job.MaxSteps, MaxLoopIter: job.MaxLoop, SampleModel: true,
				MergeFuncs: map[string]bool{}, Args: job.Args, Excuse: map[string]bool{}}
			if cfg.MaxSteps == 0 {
				cfg.MaxSteps = 2000000
			}
			if cfg.MaxLoopIter == 0 {
				cfg.MaxLoopIter = 10000
			}
			for _, f := range job.Merge {
				cfg.MergeFuncs[f] = true
			}
			if strict {
				cfg.SiteAssume = exec.SiteAssumeFor(job.Sites)
				cfg.Summaries = exec.SummariesFor(job.Summaries)
				if len(job.Summaries) > 0 {
					cfg.MergeFuncs = map[string]bool{}
				}
				for _, e := range job.Excuses {
					cfg.Excuse[e] = true
				}
			}
			if !strict && len(job.Merge) == 0 {
				// live check without a real-code alternative: summaries stay
				cfg.Summaries = exec.SummariesFor(job.Summaries)
			}
			cfg.JobBudget = 25 * time.Minute
			if *tier == "thorough" {
				cfg.JobBudget = 45 * time.Minute
			}
			to := job.TimeoutMs
			if to == 0 {
				to = 30000
			}
			st, err := exec.Explore(w, cfg, entry, *workers, job.MaxPaths, to, "z3-new", nil)
			if err != nil {
				fmt.Fprintln(os.Stderr, "explore:", err)
				return 2
			}
			rep := jobReport{Name: jobName(job), Bounds: job.Bounds, Strict: strict && (len(job.Sites) > 0 || len(job.Excuses) > 0), Paths: st.Paths, ByStatus: st.ByStatus,
				Obligations: map[string]int{}, Queries: st.Queries, SolverS: st.SolverTime.Seconds(), WallS: st.Wall.Seconds(),
				Truncated: st.Truncated, Sites: job.Sites}
			if st.Truncated {
				rep.Inconclusive = append(rep.Inconclusive, "exploration stopped at the job time budget: the remaining paths were not explored")
			}
			covers := map[string]bool{}
			// deterministic order
			sort.Slice(st.Results, func(i, j int) bool { return decKey(st.Results[i].Trace) < decKey(st.Results[j].Trace) })
			var cases []exec.ReplayCase
			type caseInfo struct {
				kind string // "sat", "sample"
				res  *exec.PathResult
				ob   *exec.Obligation
			}
			var infos []caseInfo
			for pi, r := range st.Results {
				for k, v := range r.Funcs {
					funcs[k] += v
				}
				for _, s := range r.Stubs {
					stubs[s] = true
				}
				for _, c := range r.Covers {
					covers[c] = true
				}
				rep.Rounds += r.Rounds
				if r.Approx {
					rep.ApproxPaths++
				}
				rep.FeasUnknown += r.FeasUnknown
				switch r.Status {
				case exec.PathUnsupported:
					rep.Inconclusive = append(rep.Inconclusive, "unsupported: "+r.Detail)
				case exec.PathBudget:
					rep.Inconclusive = append(rep.Inconclusive, "unwinding: "+r.Detail)
				case exec.PathPanic:
					if r.Sample == nil && r.SampleStatus != "unsat" {
						rep.Inconclusive = append(rep.Inconclusive, "panic on a path whose feasibility is undecided: "+r.PanicMsg)
					}
				}
				for oi := range r.Obligations {
					o := &r.Obligations[oi]
					rep.Obligations[o.ID+":"+o.Result]++
					if o.Result == "unknown" {
						rep.Inconclusive = append(rep.Inconclusive, "unknown obligation "+o.ID)
					}
					if o.Result == "sat" && o.WitnessV != nil {
						cases = append(cases, exec.ReplayCase{Harness: job.Harness, Args: job.Args, Witness: o.WitnessV})
						infos = append(infos, caseInfo{"sat", r, o})
						for _, w := range o.MoreWitnesses {
							cases = append(cases, exec.ReplayCase{Harness: job.Harness, Args: job.Args, Witness: w})
							infos = append(infos, caseInfo{"sat-more", r, o})
						}
					}
				}
				if r.Sample != nil && (pi%sampleEvery == 0 || r.Status != exec.PathOK || len(r.Monitors) > 0) {
					cases = append(cases, exec.ReplayCase{Harness: job.Harness, Args: job.Args, Witness: r.Sample})
					infos = append(infos, caseInfo{"sample", r, nil})
				}
				if len(samples) < 4 && r.Sample != nil && strict {
					samples = append(samples, map[string]any{
						"job": jobName(job), "decisions": decKey(r.Trace), "status": r.Status.String(),
						"nondet_names": r.SampleNames, "sample_model": r.Sample,
						"obligations": obSummary(r.Obligations), "steps": r.Steps,
					})
				}
			}
			for c := range covers {
				rep.Covers = append(rep.Covers, c)
			}
			sort.Strings(rep.Covers)
			if strict {
				for _, c := range job.Covers {
					if !covers[c] {
						vacuous = append(vacuous, jobName(job)+": cover point "+c+" not reached")
					}
				}
			}
			results, err := rp.Run(cases)
			if err != nil {
				fmt.Fprintln(os.Stderr, "replay:", err)
				return 2
			}
			for i, rr := range results {
				inf := infos[i]
				rrc := rr
				switch inf.kind {
				case "sat", "sat-more":
					failed := false
					for _, f := range rr.Failed {
						if f == inf.ob.ID {
							failed = true
						}
					}
					if failed {
						viols = append(viols, violation{Job: jobName(job), Assertion: inf.ob.ID, Kind: "assert", Witness: cases[i].Witness,
							Detail: "solver model reproduced natively", Native: &rrc, Args: job.Args, Harness: job.Harness})
					} else if rr.Panic != "" && !(job.PanicOK != "" && strings.HasPrefix(rr.Panic, job.PanicOK)) {
						viols = append(viols, violation{Job: jobName(job), Assertion: inf.ob.ID, Kind: "panic", Witness: cases[i].Witness,
							Detail: "native run panicked: " + rr.Panic, Native: &rrc, Args: job.Args, Harness: job.Harness})
					} else if inf.kind == "sat" {
						rep.Inconclusive = append(rep.Inconclusive, "sat model of "+inf.ob.ID+" did not reproduce natively (float over-approximation or encoder error)")
					}
				case "sample":
					r := inf.res
					// native failures on a sample are real violations whatever the solver said
					for _, f := range rr.Failed {
						viols = append(viols, violation{Job: jobName(job), Assertion: f, Kind: "assert", Witness: cases[i].Witness,
							Detail: "native assertion failure on a path sample", Native: &rrc, Args: job.Args, Harness: job.Harness})
					}
					if rr.TimedOut {
						viols = append(viols, violation{Job: jobName(job), Assertion: "termination", Kind: "hang", Witness: cases[i].Witness,
							Detail: "native run did not finish in 20s", Native: &rrc, Args: job.Args, Harness: job.Harness})
					}
					if rr.Panic != "" && !(job.PanicOK != "" && strings.HasPrefix(rr.Panic, job.PanicOK)) {
						viols = append(viols, violation{Job: jobName(job), Assertion: "no-panic", Kind: "panic", Witness: cases[i].Witness,
							Detail: "native run panicked: " + rr.Panic, Native: &rrc, Args: job.Args, Harness: job.Harness})
					} else if r.Status == exec.PathPanic && rr.Panic == "" && !r.Approx {
						mismatches++
						mismatchNotes = append(mismatchNotes, fmt.Sprintf("%s %s: symbolic panic %q not reproduced", jobName(job), decKey(r.Trace), r.PanicMsg))
					}
					for _, me := range r.Monitors {
						counts := false
						for _, mk := range prop.Monitors {
							if mk == me.Kind {
								counts = true
							}
						}
						if !counts {
							continue
						}
						viols = append(viols, violation{Job: jobName(job), Assertion: "monitor:" + me.Kind, Kind: "monitor", Witness: cases[i].Witness,
							Detail: me.Kind + " " + me.Detail + " at " + me.Where, Native: &rrc, Args: job.Args, Harness: job.Harness})
					}
					// translation validation of the encoder: observed outputs
					if r.Status == exec.PathOK && !rr.BadAssume && !rr.Short {
						var exp []string
						for _, ob := range r.Observes {
							exp = append(exp, ob.ID+"="+normNum(ob.Val))
						}
						var got []string
						for _, o := range rr.Observes {
							got = append(got, o)
						}
						if strings.Join(exp, " ") == strings.Join(got, " ") {
							validated++
						} else if r.Approx {
							// allowed: the sample model need not be a float-exact execution
						} else {
							mismatches++
							mismatchNotes = append(mismatchNotes, fmt.Sprintf("%s %s: sym %v native %v", jobName(job), decKey(r.Trace), exp, got))
						}
					}
				}
			}
			inconclusive += len(rep.Inconclusive)
			if len(rep.Inconclusive) > 12 {
				n := len(rep.Inconclusive)
				rep.Inconclusive = append(rep.Inconclusive[:12], fmt.Sprintf("... %d more", n-12))
			}
			totalPaths += st.Paths
			totalQueries += st.Queries
			solverTime += st.SolverTime.Seconds()
			reports = append(reports, rep)
			fmt.Printf("job %s strict=%v paths=%d %v obligations=%v inconclusive=%d wall=%.1fs\n", jobName(job), strict, st.Paths, st.ByStatus, rep.Obligations, len(rep.Inconclusive), st.Wall.Seconds())
			// classification of violations of the non-strict run
			if !strict {
				for i := range viols {
					v := &viols[i]
					if v.Job != jobName(job) || v.Known != nil {
						continue
					}
					v.Known = matchKnown(known, *propID, job, v)
				}
			}
		}
	}

	// dedupe violations (same job/assertion/witness)
	seen := map[string]bool{}
	var uniq []violation
	for _, v := range viols {
		k := v.Job + "|" + v.Assertion + "|" + strings.Join(v.Witness, ",")
		if !seen[k] {
			seen[k] = true
			uniq = append(uniq, v)
		}
	}
	viols = uniq

	exit := 0
	nViol := 0
	knownPrinted := map[string]bool{}
	for _, v := range viols {
		if v.Known != nil {
			key := v.Known.Summary
			if !knownPrinted[key] {
				knownPrinted[key] = true
				fmt.Printf("KNOWN-FINDING: property=%s %s\n", *propID, v.Known.Summary)
			}
			continue
		}
		nViol++
		path := writeReplay(*vdir, *propID, v)
		fmt.Printf("VIOLATION property=%s replay=%s\n", *propID, path)
		fmt.Printf("  %s %s: %s witness=%v\n", v.Job, v.Assertion, v.Detail, v.Witness)
		exit = 1
	}
	if mismatches > 0 {
		fmt.Printf("ENCODER-MISMATCH property=%s count=%d (symbolic outputs differ from the native run on an exact path; the check is broken, not the code)\n", *propID, mismatches)
		for _, n := range mismatchNotes {
			fmt.Println("  ", n)
			if len(n) > 0 && mismatches > 5 {
				break
			}
		}
		if exit == 0 {
			exit = 2
		}
	}
	if len(vacuous) > 0 {
		for _, v := range vacuous {
			fmt.Println("VACUOUS:", v)
		}
		if exit == 0 {
			exit = 2
		}
	}
	if inconclusive > 0 {
		fmt.Printf("INCONCLUSIVE property=%s count=%d (not a pass for those paths; see evidence)\n", *propID, inconclusive)
	}

	// evidence
	var fnames []string
	for k := range funcs {
		fnames = append(fnames, k)
	}
	sort.Strings(fnames)
	var stubList []string
	for s := range stubs {
		stubList = append(stubList, s)
	}
	sort.Strings(stubList)
	var knownMatched []string
	for k := range knownPrinted {
		knownMatched = append(knownMatched, k)
	}
	sort.Strings(knownMatched)
	if len(samples) == 0 {
		samples = append(samples, "no path produced a sample model")
	}
	ev := map[string]any{
		"property_id": *propID,
		"tier":        *tier,
		"seed":        seed,
		"level":       prop.Level,
		"coverage": map[string]any{
			"states":                        totalPaths,
			"transitions":                   totalQueries,
			"traces_validated_against_impl": validated,
			"samples":                       samples,
			"explanation":                   prop.Explain,
			"jobs":                          reports,
			"functions_encoded":             fnames,
			"function_entries":              funcs,
			"stubs_and_assumes":             stubList,
			"solver":                        "z3 5.1.0 (z3-new -in): incremental for feasibility, fresh non-incremental context per proof obligation",
			"solver_time_s":                 solverTime,
			"inconclusive":                  inconclusive,
			"encoder_mismatches":            mismatches,
			"known_findings_matched":        knownMatched,
			"vacuity_failures":              vacuous,
			"evaluations":                   totalPaths,
			"distinct_nontrivial":           totalPaths,
			"rule":                          "one evaluation = one feasible path (distinct decision vector) of a harness through the real SSA, decided for all values of its symbolic inputs by the solver",
		},
		"assumptions": prop.Assumes,
		"wall_s":      time.Since(t0).Seconds(),
		"violations":  nViol,
	}
	b, _ := json.MarshalIndent(ev, "", " ")
	evDir := envOr("VERIF_EVIDENCE_DIR", filepath.Join(*vdir, "evidence"))
	os.MkdirAll(evDir, 0o755)
	if err := os.WriteFile(filepath.Join(evDir, *propID+".json"), b, 0o644); err != nil {
		fmt.Fprintln(os.Stderr, err)
		return 2
	}
	fmt.Printf("property=%s tier=%s paths=%d queries=%d validated=%d violations=%d known=%d inconclusive=%d wall=%.1fs\n",
		*propID, *tier, totalPaths, totalQueries, validated, nViol, len(knownPrinted), inconclusive, time.Since(t0).Seconds())
	return exit
}

func normNum(s string) string {
	s = strings.TrimSpace(s)
	if strings.HasPrefix(s, "(- ") && strings.HasSuffix(s, ")") {
		return "-" + strings.TrimSpace(s[3:len(s)-1])
	}
	return s
}

func decKey(t []exec.Dec) string {
	var sb strings.Builder
	for _, d := range t {
		sb.WriteString(d.String())
	}
	return sb.String()
}

func obSummary(obs []exec.Obligation) []string {
	var out []string
	for _, o := range obs {
		out = append(out, o.ID+":"+o.Result)
	}
	return out
}

func matchKnown(known []KnownFinding, prop string, job Job, v *violation) *KnownFinding {
	for i := range known {
		k := &known[i]
		if k.Status != "known" || k.Property != prop {
			continue
		}
		if k.Assertion != "" && k.Assertion != v.Assertion {
			continue
		}
		if k.Harness != "" && k.Harness != job.Harness {
			continue
		}
		// the finding's key must be one this job excuses
		ok := false
		for _, s := range job.Sites {
			if s == k.Key {
				ok = true
			}
		}
		for _, s := range job.Excuses {
			if s == k.Key {
				ok = true
			}
		}
		if ok {
			return k
		}
	}
	return nil
}

func writeReplay(vdir, prop string, v violation) string {
	dir := filepath.Join(vdir, "replays", prop)
	os.MkdirAll(dir, 0o755)
	h := sha1.Sum([]byte(v.Job + "|" + v.Assertion + "|" + strings.Join(v.Witness, ",")))
	path := filepath.Join(dir, fmt.Sprintf("%x.json", h[:6]))
	b, _ := json.MarshalIndent(map[string]any{
		"property": prop, "harness": v.Harness, "args": v.Args, "assertion": v.Assertion, "kind": v.Kind,
		"witness": v.Witness, "detail": v.Detail, "native": v.Native,
		"replay_cmd": fmt.Sprintf("bin/gosymx replay --file %s", path),
	}, "", " ")
	os.WriteFile(path, b, 0o644)
	return path
}
