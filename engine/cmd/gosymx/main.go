package main

import (
	"flag"
	"fmt"
	"os"
	"runtime"
	"strings"

	"gosymx/exec"
)

func main() {
	if len(os.Args) < 2 {
		fmt.Fprintln(os.Stderr, "usage: gosymx run|check|replay ...")
		os.Exit(2)
	}
	switch os.Args[1] {
	case "run":
		cmdRun(os.Args[2:])
	case "check":
		os.Exit(cmdCheck(os.Args[2:]))
	default:
		fmt.Fprintln(os.Stderr, "unknown command")
		os.Exit(2)
	}
}

func envOr(k, d string) string {
	if v := os.Getenv(k); v != "" {
		return v
	}
	return d
}

func cmdRun(args []string) {
	fs := flag.NewFlagSet("run", flag.ExitOnError)
	harness := fs.String("harness", "", "harness function name")
	repo := fs.String("repo", envOr("VERIF_REPO", "/repo"), "repository dir")
	hdir := fs.String("hdir", envOr("VERIF_HARNESS", "/verif/harness"), "harness dir")
	workers := fs.Int("workers", runtime.NumCPU(), "workers")
	maxPaths := fs.Int("max-paths", 0, "max paths")
	maxSteps := fs.Int("max-steps", 2000000, "max steps per path")
	maxLoop := fs.Int("max-loop", 10000, "max loop iterations")
	timeout := fs.Int("timeout-ms", 20000, "solver timeout per query")
	solver := fs.String("solver", "z3-new", "solver")
	verbose := fs.Bool("v", false, "verbose")
	merge := fs.String("merge", "", "comma-separated merge-mode functions")
	pctext := fs.Bool("pc", false, "keep PC text")
	fs.Parse(args)
	w, err := exec.Load(*repo, *hdir)
	if err != nil {
		fmt.Fprintln(os.Stderr, err)
		os.Exit(2)
	}
	entry := w.Entry(*harness)
	if entry == nil {
		fmt.Fprintln(os.Stderr, "no such harness; have:", w.Harnesses("H_"))
		os.Exit(2)
	}
	cfg := &exec.Config{MaxSteps: *maxSteps, MaxLoopIter: *maxLoop, SampleModel: true, MergeFuncs: map[string]bool{}, KeepPCText: *pctext}
	for _, f := range strings.Split(*merge, ",") {
		if f != "" {
			cfg.MergeFuncs[f] = true
		}
	}
	st, err := exec.Explore(w, cfg, entry, *workers, *maxPaths, *timeout, *solver, func(r *exec.PathResult) {
		if *verbose || r.Status != exec.PathOK {
			fmt.Printf("path %v: %s %s %s steps=%d q=%d\n", r.Trace, r.Status, r.Detail, r.PanicMsg, r.Steps, r.Queries)
		}
		for _, o := range r.Obligations {
			if *verbose || (o.Result != "unsat" && o.Result != "concrete-true") {
				fmt.Printf("  obligation %s: %s %v\n", o.ID, o.Result, o.WitnessV)
			}
		}
		if *verbose {
			for _, mo := range r.Monitors {
				fmt.Printf("  monitor %v\n", mo)
			}
			fmt.Printf("  sample %v %v\n", r.SampleNames, r.Sample)
			for _, t := range r.PCText {
				fmt.Println("   pc:", t)
			}
		}
	})
	if err != nil {
		fmt.Fprintln(os.Stderr, err)
		os.Exit(2)
	}
	fmt.Printf("paths=%d status=%v queries=%d solver=%.2fs wall=%.2fs truncated=%v\n", st.Paths, st.ByStatus, st.Queries, st.SolverTime.Seconds(), st.Wall.Seconds(), st.Truncated)
}
