package main

import (
	"flag"
	"fmt"
	"os"
	"runtime"
	"strconv"
	"strings"

	"gosymx/exec"
)

func main() {
	if len(os.Args) < 2 {
		fmt.Fprintln(os.Stderr, "usage: gosymx run|check|replay ...")
		os.Exit(2)
	}
	switch os.Args[1] {
	case "run":
		cmdRun(os.Args[2:])
	case "check":
		os.Exit(cmdCheck(os.Args[2:]))
	case "replay":
		os.Exit(cmdReplay(os.Args[2:]))
	default:
		fmt.Fprintln(os.Stderr, "unknown command")
		os.Exit(2)
	}
}

func envOr(k, d string) string {
	if v := os.Getenv(k); v != "" {
		return v
	}
	return d
}

func cmdRun(args []string) {
	fs := flag.NewFlagSet("run", flag.ExitOnError)
	harness := fs.String("harness", "", "harness function name")
	repo := fs.String("repo", envOr("VERIF_REPO", "/repo"), "repository dir")
	hdir := fs.String("hdir", envOr("VERIF_HARNESS", "/verif/harness"), "harness dir")
	workers := fs.Int("workers", runtime.NumCPU(), "workers")
	maxPaths := fs.Int("max-paths", 0, "max paths")
	maxSteps := fs.Int("max-steps", 2000000, "max steps per path")
	maxLoop := fs.Int("max-loop", 10000, "max loop iterations")
	timeout := fs.Int("timeout-ms", 20000, "solver timeout per query")
	solver := fs.String("solver", "z3-new", "solver")
	verbose := fs.Bool("v", false, "verbose")
	merge := fs.String("merge", "", "comma-separated merge-mode functions")
	pctext := fs.Bool("pc", false, "keep PC text")
	replay := fs.Bool("replay", false, "replay witnesses and samples natively")
	conc := fs.String("concrete", "", "semicolon-separated witness: run the interpreter concretely")
	guide := fs.String("guide", "", "semicolon-separated witness: follow its path symbolically")
	traceif := fs.String("traceif", "", "write every If decision to this file")
	sites := fs.String("sites", "", "comma-separated site predicates to assume (known findings excused)")
	excuses := fs.String("excuse", "", "comma-separated vKnown keys to excuse")
	summ := fs.String("summaries", "", "comma-separated function summaries")
	argstr := fs.String("args", "", "comma-separated int64 harness arguments")
	fs.Parse(args)
	w, err := exec.Load(*repo, *hdir)
	if err != nil {
		fmt.Fprintln(os.Stderr, err)
		os.Exit(2)
	}
	entry := w.Entry(*harness)
	if entry == nil {
		fmt.Fprintln(os.Stderr, "no such harness; have:", w.Harnesses("H_"))
		os.Exit(2)
	}
	cfg := &exec.Config{MaxSteps: *maxSteps, MaxLoopIter: *maxLoop, SampleModel: true, MergeFuncs: map[string]bool{}, KeepPCText: *pctext}
	for _, a := range strings.Split(*argstr, ",") {
		if a != "" {
			v, err := strconv.ParseInt(a, 10, 64)
			if err != nil {
				fmt.Fprintln(os.Stderr, err)
				os.Exit(2)
			}
			cfg.Args = append(cfg.Args, v)
		}
	}
	if *conc != "" {
		cfg.ConcreteWitness = strings.Split(*conc, ";")
	}
	if *sites != "" {
		cfg.SiteAssume = exec.SiteAssumeFor(strings.Split(*sites, ","))
	}
	if *summ != "" {
		cfg.Summaries = exec.SummariesFor(strings.Split(*summ, ","))
	}
	cfg.Excuse = map[string]bool{}
	for _, e := range strings.Split(*excuses, ",") {
		if e != "" {
			cfg.Excuse[e] = true
		}
	}
	if *guide != "" {
		cfg.Guide = strings.Split(*guide, ";")
	}
	if *traceif != "" {
		f, err := os.Create(*traceif)
		if err != nil {
			panic(err)
		}
		defer f.Close()
		cfg.TraceIf = f
	}
	for _, f := range strings.Split(*merge, ",") {
		if f != "" {
			cfg.MergeFuncs[f] = true
		}
	}
	obSum := map[string]int{}
	roundSum := map[string]int{}
	st, err := exec.Explore(w, cfg, entry, *workers, *maxPaths, *timeout, *solver, func(r *exec.PathResult) {
		if *verbose || r.Status != exec.PathOK {
			fmt.Printf("path %v: %s %s %s steps=%d q=%d\n", r.Trace, r.Status, r.Detail, r.PanicMsg, r.Steps, r.Queries)
		}
		for k, v := range r.Funcs {
			if strings.HasPrefix(k, "<") {
				roundSum[k] += v
			}
		}
		for _, o := range r.Obligations {
			obSum[o.ID+":"+o.Result]++
			if *verbose || (o.Result != "unsat" && o.Result != "concrete-true") {
				fmt.Printf("  obligation %s: %s %v\n", o.ID, o.Result, o.WitnessV)
			}
		}
		if *verbose {
			for _, mo := range r.Monitors {
				fmt.Printf("  monitor %v\n", mo)
			}
			fmt.Printf("  sample %v %v\n", r.SampleNames, r.Sample)
			var obs []string
			for _, ob := range r.Observes {
				obs = append(obs, ob.ID+"="+ob.Val)
			}
			fmt.Printf("  observes %v\n", obs)
			for _, t := range r.PCText {
				fmt.Println("   pc:", t)
			}
		}
	})
	if err != nil {
		fmt.Fprintln(os.Stderr, err)
		os.Exit(2)
	}
	if *replay {
		rp := &exec.Replayer{RepoDir: *repo, HarnessDir: *hdir, WorkDir: fmt.Sprintf("/verif/.work/%d", os.Getpid())}
		defer rp.Cleanup()
		if err := rp.Build(w); err != nil {
			fmt.Fprintln(os.Stderr, err)
			os.Exit(2)
		}
		var cases []exec.ReplayCase
		var what []string
		for _, r := range st.Results {
			for _, o := range r.Obligations {
				if o.Result == "sat" && o.WitnessV != nil {
					cases = append(cases, exec.ReplayCase{Harness: *harness, Args: cfg.Args, Witness: o.WitnessV})
					what = append(what, "sat:"+o.ID)
				}
			}
			if r.Sample != nil {
				cases = append(cases, exec.ReplayCase{Harness: *harness, Args: cfg.Args, Witness: r.Sample})
				var obs []string
				for _, ob := range r.Observes {
					obs = append(obs, ob.ID+"="+ob.Val)
				}
				what = append(what, fmt.Sprintf("sample status=%s panic=%q observes=%v", r.Status, r.PanicMsg, obs))
			}
		}
		res, err := rp.Run(cases)
		if err != nil {
			fmt.Fprintln(os.Stderr, err)
		}
		for i, rr := range res {
			if strings.HasPrefix(what[i], "sample") {
				exp := what[i][strings.Index(what[i], "observes=")+9:]
				var got []string
				for _, o := range rr.Observes {
					got = append(got, strings.ReplaceAll(o, "=-", "=(- ")+map[bool]string{true: ")", false: ""}[strings.Contains(o, "=-")])
				}
				if fmt.Sprint(got) != exp {
					fmt.Printf("MISMATCH %v\n  sym:    %s\n  native: %v\n", cases[i].Witness, exp, got)
				}
			}
			if strings.HasPrefix(what[i], "sat:") || rr.Panic != "" || len(rr.Failed) > 0 || *verbose {
				fmt.Printf("replay[%s] %v -> failed=%v panic=%q observes=%v short=%v badassume=%v\n", what[i], cases[i].Witness, rr.Failed, rr.Panic, rr.Observes, rr.Short, rr.BadAssume)
			}
		}
		fmt.Printf("replayed %d cases (build %.1fs)\n", len(res), rp.BuildTime.Seconds())
	}
	fmt.Printf("obligations=%v\n", obSum)
	for k, v := range roundSum {
		fmt.Printf("  %s: %d\n", k, v)
	}
	fmt.Printf("paths=%d status=%v queries=%d solver=%.2fs wall=%.2fs truncated=%v\n", st.Paths, st.ByStatus, st.Queries, st.SolverTime.Seconds(), st.Wall.Seconds(), st.Truncated)
}
