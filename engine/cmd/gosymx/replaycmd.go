package main

import (
	"encoding/json"
	"flag"
	"fmt"
	"os"
	"path/filepath"

	"gosymx/exec"
)

// cmdReplay re-runs a recorded violation natively against /repo's current tree.
// Exit 1 if it still reproduces, 0 if not.
func cmdReplay(args []string) int {
	fs := flag.NewFlagSet("replay", flag.ExitOnError)
	file := fs.String("file", "", "replay json")
	repo := fs.String("repo", envOr("VERIF_REPO", "/repo"), "repository dir")
	vdir := fs.String("verif", envOr("VERIF_DIR", "/verif"), "verif dir")
	fs.Parse(args)
	b, err := os.ReadFile(*file)
	if err != nil {
		fmt.Fprintln(os.Stderr, err)
		return 2
	}
	var rec struct {
		Property  string   `json:"property"`
		Harness   string   `json:"harness"`
		Args      []int64  `json:"args"`
		Assertion string   `json:"assertion"`
		Kind      string   `json:"kind"`
		Witness   []string `json:"witness"`
	}
	if err := json.Unmarshal(b, &rec); err != nil {
		fmt.Fprintln(os.Stderr, err)
		return 2
	}
	hdir := filepath.Join(*vdir, "harness")
	w, err := exec.Load(*repo, hdir)
	if err != nil {
		fmt.Fprintln(os.Stderr, err)
		return 2
	}
	rp := &exec.Replayer{RepoDir: *repo, HarnessDir: hdir, WorkDir: filepath.Join(*vdir, ".work", fmt.Sprint(os.Getpid()))}
	defer rp.Cleanup()
	if err := rp.Build(w); err != nil {
		fmt.Fprintln(os.Stderr, err)
		return 2
	}
	res, err := rp.Run([]exec.ReplayCase{{Harness: rec.Harness, Args: rec.Args, Witness: rec.Witness}})
	if err != nil || len(res) != 1 {
		fmt.Fprintln(os.Stderr, "replay failed:", err)
		return 2
	}
	r := res[0]
	fmt.Printf("harness=%s args=%v witness=%v\nfailed=%v panic=%q timed_out=%v observes=%v\n", rec.Harness, rec.Args, rec.Witness, r.Failed, r.Panic, r.TimedOut, r.Observes)
	reproduced := r.Panic != "" || r.TimedOut
	for _, f := range r.Failed {
		if f == rec.Assertion || rec.Kind != "assert" {
			reproduced = true
		}
	}
	if reproduced {
		fmt.Printf("REPRODUCED property=%s assertion=%s\n", rec.Property, rec.Assertion)
		return 1
	}
	fmt.Println("not reproduced on the current tree")
	return 0
}
