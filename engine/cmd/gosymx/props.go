package main

// The property table: which harnesses decide which property at which tier,
// with the bounds of each job written out. See /verif/DESIGN.md §3.

var floatAssume = "float64 operations are modelled as exact real arithmetic followed by one rounding with relative error <= 2^-53; no intermediate result is assumed subnormal; symbolic floats are finite"
var heapAssume = "heap, pointers, slice lengths and capacities are concrete on each path; append growth follows the runtime's growslice policy"
var solverAssume = "trusted: go/ssa translation, the gosymx executor (validated per path against the native run), z3 5.1.0"

func ctfr() [][]int64 {
	var out [][]int64
	for ct := int64(1); ct <= 4; ct++ {
		for fr := int64(0); fr <= 3; fr++ {
			out = append(out, []int64{ct, fr})
		}
	}
	return out
}

func properties() map[string]Property {
	ps := map[string]Property{}

	// ---- C14 ------------------------------------------------------------
	ps["C14"] = Property{ID: "C14", Level: "model_checking",
		Explain: "bounded symbolic model checking of the real predicates/measures: all coordinates symbolic in [-2^29, 2^29]",
		Assumes: []string{floatAssume, solverAssume},
		Jobs: []Job{
			{Harness: "H_C14_collinear", Tier: "quick", Merge: []string{"isCollinear"}, Sites: []string{"triSign1"},
				Covers: []string{"C14.collinear.reached"},
				Bounds: "3 points, 6 coordinates each symbolic in [-2^29, 2^29]; isCollinear/productsAreEqual/multiplyUInt64/triSign executed in merge mode (one path)"},
		}}

	// ---- C01 ------------------------------------------------------------
	var c01 []Job
	for i, a := range ctfr() {
		tier := "thorough"
		if i == 1 || i == 4 || i == 10 || i == 15 { // Intersection/NonZero, Union/EvenOdd, Difference/Positive, Xor/Negative
			tier = "quick"
		}
		c01 = append(c01, Job{Harness: "H_C01_R11", Args: a, Tier: tier, Covers: []string{"C01.R11.done"},
			Bounds: "family R(1,1): one subject and one clip axis-aligned rectangle, 8 side coordinates symbolic in [-2^29, 2^29], both orientations each; probe point symbolic; clip type and fill rule concrete"})
	}
	ps["C01"] = Property{ID: "C01", Level: "model_checking",
		Explain: "every feasible path of the real sweep (BooleanOpPaths64 and everything below it) on the stated input families, region asserted at a symbolic probe point against an exact winding-number oracle",
		Assumes: []string{floatAssume, heapAssume, solverAssume, "probe points range over the integer lattice (a subset of the plane)"},
		Jobs:    c01}

	// ---- C15 ------------------------------------------------------------
	lemma := Job{Harness: "H_C14_collinear", Tier: "quick", Merge: []string{"isCollinear"}, Sites: []string{"triSign1"},
		Covers: []string{"C14.collinear.reached"},
		Bounds: "lemma for the isCollinear summary: 3 points, coordinates symbolic in [-2^29, 2^29], real isCollinear/productsAreEqual/multiplyUInt64/triSign in merge mode"}
	c15 := []Job{lemma}
	for n := int64(3); n <= 5; n++ {
		j := Job{Harness: "H_C15_closed", Args: []int64{n}, Tier: "quick", Summaries: []string{"isCollinear"}, Sites: []string{"triSign1"},
			Excuses: []string{"C15.spike"}, Covers: []string{"C15.closed.done"}, TimeoutMs: 60000,
			Bounds: "closed path of n fully symbolic points, coordinates in [-2^29, 2^29]; isCollinear replaced by its exact-cross-product summary (lemma job in the same check)"}
		if n == 3 {
			// live check of the triSign known finding with the real predicate (merge mode)
			j.Merge = []string{"isCollinear"}
		} else {
			j.NoLive = true
		}
		c15 = append(c15, j)
	}
	for n := int64(2); n <= 5; n++ {
		c15 = append(c15, Job{Harness: "H_C15_open", Args: []int64{n}, Tier: "quick", Summaries: []string{"isCollinear"}, NoLive: true,
			Covers: []string{"C15.open.done"}, TimeoutMs: 60000,
			Bounds: "open path of n fully symbolic points, coordinates in [-2^29, 2^29]; sub-sequence, end points kept, input unchanged"})
	}
	c15 = append(c15, Job{Harness: "H_C15_spike6", Tier: "quick", Summaries: []string{"isCollinear"}, Excuses: []string{"C15.spike"}, KnownOnly: true,
		Bounds: "closed 6-gon A,B,A,C,D,E (third vertex repeats the first), all coordinates symbolic: the smallest family showing known finding C15.spike"})
	ps["C15"] = Property{ID: "C15", Level: "model_checking",
		Explain: "TrimCollinear64 executed symbolically on fully symbolic paths; every loop path explored; oracles in exact integer arithmetic (sub-sequence embedding, shoelace identity, collinearity of consecutive triples, idempotence)",
		Assumes: []string{solverAssume, "closed paths with more than 5 vertices are outside the bound except for the spike family"},
		Jobs:    c15}

	// ---- C16 ------------------------------------------------------------
	c16 := []Job{{Harness: "H_C16_kernel", Tier: "quick", Covers: []string{"C16.kernel.reached"},
		Bounds: "real PerpendicDistFromLineSqr64 on 3 fully symbolic points in [-2^29, 2^29]: non-negative, zero iff degenerate or exactly collinear, translation invariant, symmetric inputs"}}
	for _, a := range [][]int64{{3, 1}, {4, 1}, {4, 0}, {5, 1}, {5, 0}, {6, 1}, {6, 0}, {7, 1}} {
		tier := "quick"
		if a[0] >= 6 {
			tier = "thorough"
		}
		c16 = append(c16, Job{Harness: "H_C16_simplify", Args: a, Tier: tier, Summaries: []string{"PerpendicDistFromLineSqr64"}, NoLive: true,
			Covers: []string{"C16.simplify.done"},
			Bounds: "SimplifyPath64 on n fully symbolic points (args: n, closed), epsilon symbolic in [0, 2^20]; the kernel is an arbitrary non-negative function (so the bookkeeping is decided for every kernel, the real one included)"})
	}
	for _, a := range [][]int64{{4, 1}, {4, 0}, {5, 1}} {
		tier := "quick"
		if a[0] >= 5 {
			tier = "thorough"
		}
		c16 = append(c16, Job{Harness: "H_C16_eps0", Args: a, Tier: tier, Summaries: []string{"PerpendicDistFromLineSqr64+zero"}, NoLive: true,
			Covers: []string{"C16.eps0.done"}, TimeoutMs: 60000,
			Bounds: "SimplifyPath64 with epsilon 0 on n fully symbolic points; kernel abstracted to 'zero iff exactly collinear' (proved for the real kernel by H_C16_kernel); exact shoelace identity; translated run returns the translated result"})
	}
	ps["C16"] = Property{ID: "C16", Level: "model_checking",
		Explain: "kernel decided on the real code for all coordinates; bookkeeping decided on the real SimplifyPath64 with the kernel abstracted (sound for every kernel); epsilon-0 claims with the kernel's proved zero-set",
		Assumes: []string{floatAssume, solverAssume, "SimplifyPathD and the Paths variants are covered by C07's plumbing equivalence, not here", "power-of-two scaling invariance is not decided (float model does not track exact scaling)"},
		Jobs:    c16}

	return ps
}
