package main

// The property table: which harnesses decide which property at which tier,
// with the bounds of each job written out. See /verif/DESIGN.md §3.

var floatAssume = "float64 operations are modelled as exact real arithmetic followed by one rounding with relative error <= 2^-53; no intermediate result is assumed subnormal; symbolic floats are finite"
var heapAssume = "heap, pointers, slice lengths and capacities are concrete on each path; append growth follows the runtime's growslice policy"
var solverAssume = "trusted: go/ssa translation, the gosymx executor (validated per path against the native run), z3 5.1.0"

func ctfr() [][]int64 {
	var out [][]int64
	for ct := int64(1); ct <= 4; ct++ {
		for fr := int64(0); fr <= 3; fr++ {
			out = append(out, []int64{ct, fr})
		}
	}
	return out
}

func properties() map[string]Property {
	ps := map[string]Property{}

	// ---- C14 ------------------------------------------------------------
	ps["C14"] = Property{ID: "C14", Level: "model_checking",
		Explain: "bounded symbolic model checking of the real predicates/measures: all coordinates symbolic in [-2^29, 2^29]",
		Assumes: []string{floatAssume, solverAssume},
		Jobs: []Job{
			{Harness: "H_C14_collinear", Tier: "quick", Merge: []string{"isCollinear"}, Sites: []string{"triSign1"},
				Covers: []string{"C14.collinear.reached"},
				Bounds: "3 points, 6 coordinates each symbolic in [-2^29, 2^29]; isCollinear/productsAreEqual/multiplyUInt64/triSign executed in merge mode (one path)"},
		}}

	// ---- C01 ------------------------------------------------------------
	var c01 []Job
	for i, a := range ctfr() {
		tier := "thorough"
		if i == 1 || i == 4 || i == 10 || i == 15 { // Intersection/NonZero, Union/EvenOdd, Difference/Positive, Xor/Negative
			tier = "quick"
		}
		c01 = append(c01, Job{Harness: "H_C01_R11", Args: a, Tier: tier, Covers: []string{"C01.R11.done"},
			Bounds: "family R(1,1): one subject and one clip axis-aligned rectangle, 8 side coordinates symbolic in [-2^29, 2^29], both orientations each; probe point symbolic; clip type and fill rule concrete"})
	}
	ps["C01"] = Property{ID: "C01", Level: "model_checking",
		Explain: "every feasible path of the real sweep (BooleanOpPaths64 and everything below it) on the stated input families, region asserted at a symbolic probe point against an exact winding-number oracle",
		Assumes: []string{floatAssume, heapAssume, solverAssume, "probe points range over the integer lattice (a subset of the plane)"},
		Jobs:    c01}

	return ps
}
