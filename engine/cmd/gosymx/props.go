package main

// The property table: which harnesses decide which property at which tier,
// with the bounds of each job written out. See /verif/DESIGN.md §3.

var floatAssume = "float64 operations are modelled as exact real arithmetic followed by one rounding with relative error <= 2^-53; no intermediate result is assumed subnormal; symbolic floats are finite"
var heapAssume = "heap, pointers, slice lengths and capacities are concrete on each path; append growth follows the runtime's growslice policy"
var solverAssume = "trusted: go/ssa translation, the gosymx executor (validated per path against the native run), z3 5.1.0"

func ctfr() [][]int64 {
	var out [][]int64
	for ct := int64(1); ct <= 4; ct++ {
		for fr := int64(0); fr <= 3; fr++ {
			out = append(out, []int64{ct, fr})
		}
	}
	return out
}

func properties() map[string]Property {
	ps := map[string]Property{}

	// ---- C14 ------------------------------------------------------------
	ps["C14"] = Property{ID: "C14", Level: "model_checking",
		Explain: "bounded symbolic model checking of the real predicates/measures: all coordinates symbolic in [-2^29, 2^29]",
		Assumes: []string{floatAssume, solverAssume},
		Jobs: []Job{
			{Harness: "H_C14_collinear", Tier: "quick", Merge: []string{"isCollinear"}, Sites: []string{"triSign1"},
				Covers: []string{"C14.collinear.reached"},
				Bounds: "3 points, 6 coordinates each symbolic in [-2^29, 2^29]; isCollinear/productsAreEqual/multiplyUInt64/triSign executed in merge mode (one path)"},
			{Harness: "H_C14_cross", Tier: "quick", Covers: []string{"C14.cross.reached"},
				Bounds: "CrossProduct on 3 fully symbolic points in [-2^29, 2^29]: sign and zero-ness equal those of the exact integer cross product"},
			{Harness: "H_C14_pip", Args: []int64{3}, Tier: "quick", Covers: []string{"C14.pip.reached"}, TimeoutMs: 120000,
				Bounds: "PointInPolygon: fully symbolic triangle (not on one horizontal line) and fully symbolic point, all in [-2^29, 2^29], against an exact on-boundary / crossing-parity oracle"},
			{Harness: "H_C14_area", Args: []int64{3}, Tier: "quick", Covers: []string{"C14.area.reached"}, Bounds: "Area64/IsPositive64/AreaPaths64 on n=3 fully symbolic points versus the exact shoelace sum (to float64 rounding)"},
			{Harness: "H_C14_area", Args: []int64{4}, Tier: "quick", Covers: []string{"C14.area.reached"}, Bounds: "n=4"},
			{Harness: "H_C14_area", Args: []int64{5}, Tier: "quick", Covers: []string{"C14.area.reached"}, Bounds: "n=5"},
			{Harness: "H_C14_area", Args: []int64{6}, Tier: "thorough", Covers: []string{"C14.area.reached"}, Bounds: "n=6"},
			{Harness: "H_C14_bounds", Args: []int64{3}, Tier: "quick", Covers: []string{"C14.bounds.reached"}, Bounds: "GetBounds64 on n=3 fully symbolic points: exact extremes"},
			{Harness: "H_C14_bounds", Args: []int64{4}, Tier: "quick", Covers: []string{"C14.bounds.reached"}, Bounds: "n=4"},
			{Harness: "H_C14_bounds", Args: []int64{5}, Tier: "thorough", Covers: []string{"C14.bounds.reached"}, Bounds: "n=5"},
		}}

	// ---- C01 ------------------------------------------------------------
	var c01 []Job
	for i, a := range ctfr() {
		tier := "thorough"
		if i == 1 || i == 10 || i == 15 { // Intersection/NonZero, Difference/Positive, Xor/Negative
			tier = "quick"
		}
		c01 = append(c01, Job{Harness: "H_C01_R11", Args: a, Tier: tier, Covers: []string{"C01.R11.done"},
			Bounds: "family R(1,1): one subject and one clip axis-aligned rectangle, 8 side coordinates symbolic in [-2^29, 2^29], both orientations each; probe point symbolic; clip type and fill rule concrete"})
	}
	c01 = append(c01, Job{Harness: "H_C01_R", Args: []int64{11, 2, 1}, Tier: "quick", Covers: []string{"C01.R.done"},
		Bounds: "three subject rectangles, two abutting along a shared vertical line x = xm on which the third's left side also lies; the other 4 x-sides and all 6 y-sides symbolic in [-2^29, 2^29] with every y-relation free; Union, NonZero"})
	for _, a := range [][]int64{{10, 2, 1}, {8, 1, 1}, {9, 1, 1}, {12, 2, 1}, {1, 2, 1}} {
		c01 = append(c01, Job{Harness: "H_C01_R", Args: a, Tier: "thorough", Covers: []string{"C01.R.done"},
			Bounds: "three-rectangle families (8: R(1,2) with the clips side by side inside the subject's x-range; 9: R(2,1) likewise; 10/11: abutting on a shared line; 12: R(1,2) with overlapping clips) and R(2,0) (1); args (family, clip type, fill rule)"})
	}
	f15 := "family 15: subjects A, B abutting on x = xm, A spanning the scanline y = yl that carries B's top edge and the bottom edge of clip C, C straddling xm (10 side coordinates symbolic in [-2^29, 2^29]; ay0/by0, ay1/cy1, cx1/bx1 relations free; positive orientation)"
	c01 = append(c01, Job{Harness: "H_C01_R", Args: []int64{15, 4, 1}, Tier: "quick", Covers: []string{"C01.R.done"}, Bounds: f15 + "; Xor, EvenOdd"})
	for _, a := range [][]int64{{15, 1, 1}, {15, 2, 2}, {15, 3, 1}, {15, 4, 3}} {
		c01 = append(c01, Job{Harness: "H_C01_R", Args: a, Tier: "thorough", Covers: []string{"C01.R.done"}, Bounds: f15 + "; args (family, clip type, fill rule)"})
	}
	ps["C01"] = Property{ID: "C01", Level: "model_checking",
		Explain: "every feasible path of the real sweep (BooleanOpPaths64 and everything below it) on the stated input families, region asserted at a symbolic probe point against an exact winding-number oracle",
		Assumes: []string{floatAssume, heapAssume, solverAssume, "probe points range over the integer lattice (a subset of the plane)"},
		Jobs:    c01}

	// ---- C15 ------------------------------------------------------------
	lemma := Job{Harness: "H_C14_collinear", Tier: "quick", Merge: []string{"isCollinear"}, Sites: []string{"triSign1"},
		Covers: []string{"C14.collinear.reached"},
		Bounds: "lemma for the isCollinear summary: 3 points, coordinates symbolic in [-2^29, 2^29], real isCollinear/productsAreEqual/multiplyUInt64/triSign in merge mode"}
	c15 := []Job{lemma}
	for n := int64(3); n <= 5; n++ {
		j := Job{Harness: "H_C15_closed", Args: []int64{n}, Tier: "quick", Summaries: []string{"isCollinear"}, Sites: []string{"triSign1"},
			Excuses: []string{"C15.spike"}, Covers: []string{"C15.closed.done"}, TimeoutMs: 60000,
			Bounds: "closed path of n fully symbolic points, coordinates in [-2^29, 2^29]; isCollinear replaced by its exact-cross-product summary (lemma job in the same check)"}
		if n == 3 {
			// live check of the triSign known finding with the real predicate (merge mode)
			j.Merge = []string{"isCollinear"}
		} else {
			j.NoLive = true
		}
		c15 = append(c15, j)
	}
	for n := int64(2); n <= 5; n++ {
		c15 = append(c15, Job{Harness: "H_C15_open", Args: []int64{n}, Tier: "quick", Summaries: []string{"isCollinear"}, NoLive: true,
			Covers: []string{"C15.open.done"}, TimeoutMs: 60000,
			Bounds: "open path of n fully symbolic points, coordinates in [-2^29, 2^29]; sub-sequence, end points kept, input unchanged"})
	}
	c15 = append(c15, Job{Harness: "H_C15_spike6", Tier: "quick", Summaries: []string{"isCollinear"}, Excuses: []string{"C15.spike"}, KnownOnly: true,
		Bounds: "closed 6-gon A,B,A,C,D,E (third vertex repeats the first), all coordinates symbolic: the smallest family showing known finding C15.spike"})
	ps["C15"] = Property{ID: "C15", Level: "model_checking",
		Explain: "TrimCollinear64 executed symbolically on fully symbolic paths; every loop path explored; oracles in exact integer arithmetic (sub-sequence embedding, shoelace identity, collinearity of consecutive triples, idempotence)",
		Assumes: []string{solverAssume, "closed paths with more than 5 vertices are outside the bound except for the spike family"},
		Jobs:    c15}

	// ---- C16 ------------------------------------------------------------
	c16 := []Job{{Harness: "H_C16_kernel", Tier: "quick", Covers: []string{"C16.kernel.reached"},
		Bounds: "real PerpendicDistFromLineSqr64 on 3 fully symbolic points in [-2^29, 2^29]: non-negative, zero iff degenerate or exactly collinear, translation invariant, symmetric inputs"}}
	for _, a := range [][]int64{{3, 1}, {4, 1}, {4, 0}, {5, 1}, {5, 0}, {6, 1}, {6, 0}, {7, 1}} {
		tier := "quick"
		if a[0] >= 6 {
			tier = "thorough"
		}
		c16 = append(c16, Job{Harness: "H_C16_simplify", Args: a, Tier: tier, Summaries: []string{"PerpendicDistFromLineSqr64"}, NoLive: true,
			Covers: []string{"C16.simplify.done"},
			Bounds: "SimplifyPath64 on n fully symbolic points (args: n, closed), epsilon symbolic in [0, 2^20]; the kernel is an arbitrary non-negative function (so the bookkeeping is decided for every kernel, the real one included)"})
	}
	for _, a := range [][]int64{{4, 1}, {4, 0}, {5, 1}} {
		tier := "quick"
		if a[0] >= 5 {
			tier = "thorough"
		}
		c16 = append(c16, Job{Harness: "H_C16_eps0", Args: a, Tier: tier, Summaries: []string{"PerpendicDistFromLineSqr64+zero"}, NoLive: true,
			Covers: []string{"C16.eps0.done"}, TimeoutMs: 60000,
			Bounds: "SimplifyPath64 with epsilon 0 on n fully symbolic points; kernel abstracted to 'zero iff exactly collinear' (proved for the real kernel by H_C16_kernel); exact shoelace identity; translated run returns the translated result"})
	}
	ps["C16"] = Property{ID: "C16", Level: "model_checking",
		Explain: "kernel decided on the real code for all coordinates; bookkeeping decided on the real SimplifyPath64 with the kernel abstracted (sound for every kernel); epsilon-0 claims with the kernel's proved zero-set",
		Assumes: []string{floatAssume, solverAssume, "SimplifyPathD and the Paths variants are covered by C07's plumbing equivalence, not here", "power-of-two scaling invariance is not decided (float model does not track exact scaling)"},
		Jobs:    c16}

	famText := map[int64]string{0: "R(1,1): one subject and one clip rectangle", 1: "R(2,0): two subject rectangles, no clip", 2: "R(2,1)", 3: "R(1,2)", 4: "R(3,0): three subject rectangles", 5: "R(1,0)"}
	rb := func(fam int64) string {
		return "rectilinear family " + famText[fam] + "; every side coordinate symbolic in [-2^29, 2^29], every rectangle in either orientation; regions compared on every grid cell, solver asked for a far probe only in mismatching cells"
	}

	// ---- C02 ------------------------------------------------------------
	var c02 []Job
	for _, a := range [][]int64{{0, 1, 1, 0}, {0, 2, 0, 1}, {0, 3, 2, 2}, {0, 4, 3, 0}, {0, 3, 1, 0}} {
		c02 = append(c02, Job{Harness: "H_C02_R", Args: a, Tier: "quick", Covers: []string{"C02.done"}, Bounds: rb(a[0]) + "; args (family, clip type, fill rule, options: bit0 reverse-solution, bit1 preserve-collinear off)"})
	}
	c02 = append(c02, Job{Harness: "H_C02_reunion", Args: []int64{0, 2, 1}, Tier: "quick", Covers: []string{"C02.reunion.done"}, Bounds: rb(0) + "; solution re-united with itself"})
	for i, a := range ctfr() {
		c02 = append(c02, Job{Harness: "H_C02_R", Args: []int64{0, a[0], a[1], int64(i % 4)}, Tier: "thorough", Covers: []string{"C02.done"}, Bounds: rb(0)})
	}
	for _, a := range [][]int64{{1, 2, 1, 1}} {
		c02 = append(c02, Job{Harness: "H_C02_R", Args: a, Tier: "thorough", Covers: []string{"C02.done"}, Bounds: rb(1)})
	}
	c02 = append(c02, Job{Harness: "H_C02_R", Args: []int64{15, 4, 1, 0}, Tier: "quick", Covers: []string{"C02.done"}, Bounds: f15 + "; Xor, EvenOdd"})
	for _, a := range [][]int64{{15, 4, 2, 1}, {15, 1, 1, 2}, {15, 2, 1, 0}, {15, 3, 1, 3}} {
		c02 = append(c02, Job{Harness: "H_C02_R", Args: a, Tier: "thorough", Covers: []string{"C02.done"}, Bounds: f15 + "; args (family, clip type, fill rule, options)"})
	}
	ps["C02"] = Property{ID: "C02", Level: "model_checking",
		Explain: "the real sweep executed on every feasible path of the family; per output path: length, no repeated consecutive vertex (solver), winding 0/1 (0/-1 reversed) on every grid cell that can hold a probe 2 units from the solution's edges; re-union compared cell by cell",
		Assumes: []string{floatAssume, heapAssume, solverAssume},
		Jobs:    c02}

	// ---- C19 ------------------------------------------------------------
	c19 := []Job{{Harness: "H_C19_R", Args: []int64{0, 1}, Tier: "quick", Covers: []string{"C19.done"}, Bounds: rb(0) + "; all four clip types (and Difference(C,S), UnionPaths64) in one run, NonZero"}}
	for _, fr := range []int64{0, 2, 3} {
		c19 = append(c19, Job{Harness: "H_C19_R", Args: []int64{0, fr}, Tier: "thorough", Covers: []string{"C19.done"}, Bounds: rb(0)})
	}
	c19 = append(c19, Job{Harness: "H_C19_R", Args: []int64{14, 1}, Tier: "quick", Covers: []string{"C19.done"},
		Bounds: "R(1,2): two clip rectangles side by side strictly inside the subject rectangle, all sides symbolic, the clips' y-relation free"})
	c19 = append(c19, Job{Harness: "H_C19_R", Args: []int64{14, 0}, Tier: "thorough", Covers: []string{"C19.done"}, Bounds: "same, EvenOdd"})
	for _, fr := range []int64{1, 0} {
		c19 = append(c19, Job{Harness: "H_C19_R", Args: []int64{15, fr}, Tier: "thorough", Covers: []string{"C19.done"}, Bounds: f15 + "; args (family, fill rule)"})
	}

	ps["C19"] = Property{ID: "C19", Level: "model_checking",
		Explain: "pointwise set identities between the solutions of the four clip types, decided per grid cell on every feasible path; area identities follow up to the band. Inputs with thousands of vertices are outside the bound",
		Assumes: []string{floatAssume, heapAssume, solverAssume},
		Jobs:    c19}

	// ---- C17 ------------------------------------------------------------
	var c17 []Job
	for _, a := range [][]int64{{0, 1, 1, 1}, {0, 1, 1, 3}, {0, 1, 1, 5}, {0, 1, 1, 6}, {0, 1, 1, 9}, {0, 1, 0, 4}} {
		c17 = append(c17, Job{Harness: "H_C17_R", Args: a, Tier: "quick", Covers: []string{"C17.done"}, Bounds: rb(a[0]) + "; args (family, clip type, fill rule, transformation 0..9)"})
	}
	c17 = append(c17, Job{Harness: "H_C17_R", Args: []int64{12, 3, 2, 5}, Tier: "quick", Covers: []string{"C17.done"},
		Bounds: "R(1,2) with the two clip rectangles overlapping in x inside the subject's x-range, all sides symbolic, y-relations free; Difference under Positive versus all paths reversed under Negative"})
	for _, a := range [][]int64{{12, 4, 1, 0}} {
		c17 = append(c17, Job{Harness: "H_C17_R", Args: a, Tier: "thorough", Covers: []string{"C17.done"}, Bounds: "three-rectangle families 12 / 8"})
	}
	c17 = append(c17, Job{Harness: "H_C17_twice", Args: []int64{0, 4, 0}, Tier: "quick", Covers: []string{"C17.twice.done"}, Bounds: rb(0) + "; the same call twice"})
	for _, cf := range [][]int64{{2, 1}, {4, 0}} {
		for tr := int64(0); tr <= 9; tr += 2 {
			if tr == 4 && cf[1] != 0 || tr == 5 && cf[1] == 0 || tr == 6 && cf[0] == 3 {
				continue
			}
			c17 = append(c17, Job{Harness: "H_C17_R", Args: []int64{0, cf[0], cf[1], tr}, Tier: "thorough", Covers: []string{"C17.done"}, Bounds: rb(0)})
		}
	}
	for _, tr := range []int64{0} {
		c17 = append(c17, Job{Harness: "H_C17_R", Args: []int64{1, 2, 1, tr}, Tier: "thorough", Covers: []string{"C17.done"}, Bounds: rb(1)})
	}
	for _, tr := range []int64{0, 1, 3, 7, 8, 9} {
		c17 = append(c17, Job{Harness: "H_C17_R", Args: []int64{15, 4, 1, tr}, Tier: "thorough", Covers: []string{"C17.done"},
			Bounds: f15 + "; Xor, EvenOdd; args (family, clip type, fill rule, transformation: 0 permute, 1 rotate start, 3 repeat a vertex, 7/8 mirror, 9 rotate 90 degrees - the mirrored and rotated spellings put the shared edges on different sweep events)"})
	}
	ps["C17"] = Property{ID: "C17", Level: "model_checking",
		Explain:  "the same operation on two spellings of the same symbolic input inside one run; regions compared cell by cell. Determinism: the executor aborts a path on any nondeterminism source (map range, goroutine, select, channel) and the sort is the toolchain's real pdqsort, interpreted",
		Assumes:  []string{floatAssume, heapAssume, solverAssume},
		Monitors: []string{"nondeterminism-source"},
		Jobs:     c17}

	// ---- C12 ------------------------------------------------------------
	var c12 []Job
	for seq := int64(0); seq <= 9; seq++ {
		c12 = append(c12, Job{Harness: "H_C12_hist", Args: []int64{0, 1, 1, seq}, Tier: "quick", Covers: []string{"C12.done"},
			Bounds: rb(0) + "; args (family, clip type, fill rule, history 0..9); histories of length <= 4 calls, compared with a fresh engine"})
	}
	c12 = append(c12, Job{Harness: "H_C12_D", Args: []int64{1, 1}, Tier: "quick", Covers: []string{"C12.D.done"},
		Bounds: "floating-point engine, precision 2: symbolic integer-valued rectangle in [-1000,1000] against a fixed square, solution argument pre-filled"})
	for _, cf := range [][]int64{{2, 0}} {
		for seq := int64(0); seq <= 9; seq++ {
			c12 = append(c12, Job{Harness: "H_C12_hist", Args: []int64{0, cf[0], cf[1], seq}, Tier: "thorough", Covers: []string{"C12.done"}, Bounds: rb(0)})
		}
	}
	for _, seq := range []int64{2, 7} {
		c12 = append(c12, Job{Harness: "H_C12_hist", Args: []int64{1, 2, 1, seq}, Tier: "thorough", Covers: []string{"C12.done"}, Bounds: rb(1)})
	}
	for _, seq := range []int64{0, 9} {
		c12 = append(c12, Job{Harness: "H_C12_hist", Args: []int64{15, 4, 1, seq}, Tier: "thorough", Covers: []string{"C12.done"},
			Bounds: f15 + "; Xor, EvenOdd; history seq (0: a second execution after one that produced horizontal joins, 9: paths added after an execution)"})
	}
	ps["C12"] = Property{ID: "C12", Level: "model_checking",
		Explain:  "bounded call histories on one engine object (concrete sequences of <= 4 calls, symbolic geometry) compared with a fresh engine on every feasible path; every store into a backing array reachable from a harness argument is flagged by the executor's heap monitor",
		Assumes:  []string{floatAssume, heapAssume, solverAssume},
		Monitors: []string{"caller-slice-write"},
		Jobs:     c12}

	// ---- C06 ------------------------------------------------------------
	c06 := []Job{lemma}
	c06 = append(c06, Job{Harness: "H_C06_rect", Args: []int64{0}, Tier: "quick", Summaries: []string{"isCollinear"}, Sites: []string{"triSign1"}, NoLive: true,
		Covers: []string{"C06.done"}, TimeoutMs: 120000,
		Bounds: "clip rectangle with 4 symbolic sides x one closed axis-aligned rectangle path with 4 symbolic sides, either orientation, all in [-2^29, 2^29]; region at a fully symbolic probe point (exact winding oracle), vertices within the rectangle, inside-unchanged, outside-vanishes"})
	for sh := int64(5); sh <= 8; sh++ {
		c06 = append(c06, Job{Harness: "H_C06_rect", Args: []int64{sh}, Tier: "quick", Summaries: []string{"isCollinear"}, Sites: []string{"triSign1"}, NoLive: true,
			Covers: []string{"C06.done"}, TimeoutMs: 120000,
			Bounds: "clip rectangle x concave rectilinear 8-gon (rectangle with a notch), 11 symbolic coordinates, restricted to placements where the rectangle side cuts both arms of the notch (result touches that side in two stretches)"})
	}
	c06 = append(c06, Job{Harness: "H_C06_rect", Args: []int64{10}, Tier: "quick", Summaries: []string{"isCollinear"}, Sites: []string{"triSign1"}, NoLive: true,
		Covers: []string{"C06.done"}, TimeoutMs: 120000, Bounds: "L-shaped hexagon whose solid block contains the clip rectangle with all four rectangle corners on the polygon's boundary"})
	c06 = append(c06, Job{Harness: "H_C06_rect", Args: []int64{9}, Tier: "thorough", Summaries: []string{"isCollinear"}, Sites: []string{"triSign1"}, NoLive: true,
		Covers: []string{"C06.done"}, TimeoutMs: 120000, Bounds: "clip rectangle x L-shaped hexagon, 6+4 symbolic coordinates, all mirror images and both orientations"})
	ps["C06"] = Property{ID: "C06", Level: "model_checking",
		Explain: "RectClipPaths64 (location state machine, intersections, corner insertion, edge tidying) executed on every feasible path of the family; winding number of the result compared with the input's at a symbolic probe inside the rectangle and with 0 outside",
		Assumes: []string{floatAssume, heapAssume, solverAssume, "isCollinear summarised by its exact cross product (lemma job in the same check; triSign(1) site excluded)", "paths with sloped edges are outside these jobs"},
		Jobs:    c06}

	// ---- C11 ------------------------------------------------------------
	var c11 []Job
	shapeText := []string{"horizontal 2-point segment", "vertical 2-point segment", "L: horizontal then vertical", "L: vertical then horizontal", "three collinear horizontal points in any order"}
	for sh := int64(0); sh <= 4; sh++ {
		c11 = append(c11, Job{Harness: "H_C11_lines", Args: []int64{sh}, Tier: "quick", Covers: []string{"C11.done"}, TimeoutMs: 60000,
			Bounds: "clip rectangle with 4 symbolic sides x open axis-parallel polyline (" + shapeText[sh] + ") with symbolic coordinates in [-2^29, 2^29]; a symbolic point on each input segment decides coverage"})
	}
	ps["C11"] = Property{ID: "C11", Level: "model_checking",
		Explain: "RectClipLinesPaths64 executed on every feasible path of the family: vertices inside the rectangle and on the input line, pieces not closed up, and for a symbolic point of the input line more than 2 units from the rectangle boundary: covered by the result iff inside the rectangle",
		Assumes: []string{floatAssume, heapAssume, solverAssume, "sloped segments and polylines of more than 3 points are outside these jobs"},
		Jobs:    c11}

	// ---- C03 ------------------------------------------------------------
	var c03 []Job
	ops := [][]int64{{1, 1}, {2, 0}, {3, 2}, {4, 3}, {0, 0}, {5, 4}}
	for sshape := int64(0); sshape <= 10; sshape++ {
		cshapes := []int64{-1}
		if sshape == 4 {
			cshapes = []int64{-1, -2, 100}
		}
		for _, cshape := range cshapes {
			for oi, op := range ops {
				cs := cshape
				if cs == 100 {
					cs = sshape
				}
				tier := "thorough"
				if cshape == -1 && (oi == int(sshape)%4 || oi >= 4) {
					tier = "quick"
				}
				j := Job{Harness: "H_C03_bool", Args: []int64{sshape, cs, op[0], op[1]}, Tier: tier,
					Bounds: "degenerate subject shape (0..10: empty set, empty path, 1/2 points, collinear, repeated point, zero-area, coincident, repeated vertices) with coordinates symbolic in [-64,64]; clip: -1 symbolic rectangle, -2 nil, else the same degenerate shape; clip type value 0..5 and fill rule value 0..4 as given"}
				if op[0] != 0 {
					j.Covers = []string{"C03.bool.done"}
				} else {
					j.Excuses = []string{"C03.noclip"}
				}
				c03 = append(c03, j)
			}
		}
		for oi, op := range ops {
			tier := "thorough"
			if oi == int(sshape)%3 {
				tier = "quick"
			}
			j := Job{Harness: "H_C03_open", Args: []int64{sshape, op[0], op[1]}, Tier: tier,
				Bounds: "the same degenerate shapes as open subject paths against a symbolic clip rectangle"}
			if op[0] != 0 {
				j.Covers = []string{"C03.open.done"}
			} else {
				j.Excuses = []string{"C03.noclip"}
			}
			c03 = append(c03, j)
		}
		slowTier := "quick"
		if sshape == 4 || sshape >= 9 {
			slowTier = "thorough"
		}
		if sshape == 5 {
			continue // vertical collinear triple: rect/util jobs take ~8 min each; covered by shape 4 up to symmetry
		}
		if sshape != 4 { // rect(4): 3 paths run into the solver watchdog; not registered
			c03 = append(c03, Job{Harness: "H_C03_rect", Args: []int64{sshape}, Tier: slowTier, Covers: []string{"C03.rect.done"},
				Bounds: "RectClipPaths64/Path64/LinesPaths64/LinesPath64 on the degenerate shapes with a rectangle whose 4 sides are unconstrained (empty and inverted rectangles included), coordinates in [-64,64]"})
		}
		if sshape == 9 {
			continue // util(9): 3 paths run into the solver watchdog; not registered
		}
		c03 = append(c03, Job{Harness: "H_C03_util", Args: []int64{sshape}, Tier: slowTier, Covers: []string{"C03.util.done"}, Merge: []string{"isCollinear"},
			Bounds: "Area64, IsPositive64, GetBounds64, PointInPolygon, StripDuplicates, TrimCollinear64, SimplifyPath64(s), Translate, ReversePath, Path2ContainsPath1 on the degenerate shapes"})
	}
	for _, a := range [][]int64{{0, 0, 1}, {2, 2, 1}, {2, 3, 0}, {3, 3, 1}, {6, 4, 1}, {4, 5, 0}, {10, 2, 1}, {10, 3, 0}, {1, 10, 1}} {
		c03 = append(c03, Job{Harness: "H_C03_mink", Args: a, Tier: "quick", Covers: []string{"C03.mink.done"},
			Bounds: "MinkowskiSum64/Diff64 with degenerate pattern and path shapes, coordinates in [-32,32]"})
	}
	ps["C03"] = Property{ID: "C03", Level: "model_checking",
		Explain: "every exported 64-bit entry point executed on degenerate input families with symbolic coordinates; a panic on any feasible path, a failed Execute or an exhausted loop/step budget is a violation once it reproduces natively (panics are caught by the harness and asserted absent)",
		Assumes: []string{floatAssume, heapAssume, solverAssume, "offset entry points are exercised under C05/C10, the floating-point API's precision panic under C07"},
		Jobs:    c03}

	// ---- C04 ------------------------------------------------------------
	var c04 []Job
	c04b := func(fam int64) string {
		switch fam {
		case 6:
			return "three strictly nested rectangles (boundary / hole / island), all sides and orientations symbolic in [-2^29, 2^29]"
		case 7:
			return "a rectangle containing a wide and a tall bar that cross (plus-shaped hole touching its central island at corners), all sides and orientations symbolic"
		}
		return rb(fam)
	}
	c04 = append(c04, Job{Harness: "H_C04_R", Args: []int64{13, 3, 1}, Tier: "quick", Covers: []string{"C04.done", "C04.node"},
		Bounds: "subject rectangle minus a clip strip spanning its full height (shared y variables: the result is split by horizontal joins) and a second clip rectangle strictly inside the right-hand piece (a hole there); 10 symbolic coordinates"})
	c04 = append(c04, Job{Harness: "H_C04_R", Args: []int64{13, 3, 0}, Tier: "thorough", Covers: []string{"C04.done"}, Bounds: "same, EvenOdd"})
	for _, a := range [][]int64{{1, 2, 0}, {6, 2, 0}, {6, 2, 1}, {6, 4, 2}, {6, 2, 3}, {7, 2, 0}, {0, 3, 1}} {
		c04 = append(c04, Job{Harness: "H_C04_R", Args: a, Tier: "quick", Covers: []string{"C04.done", "C04.node"},
			Bounds: c04b(a[0]) + "; args (family, clip type, fill rule); tree polygons matched against the flat result, nesting and orientation decided per grid cell"})
	}
	for _, a := range [][]int64{{1, 2, 1}, {0, 4, 0}, {7, 2, 1}, {6, 4, 0}} {
		c04 = append(c04, Job{Harness: "H_C04_R", Args: a, Tier: "thorough", Covers: []string{"C04.done"}, Bounds: c04b(a[0])})
	}
	for _, a := range [][]int64{{15, 4, 1}, {15, 3, 1}} {
		c04 = append(c04, Job{Harness: "H_C04_R", Args: a, Tier: "thorough", Covers: []string{"C04.done"}, Bounds: f15 + "; args (family, clip type, fill rule)"})
	}
	ps["C04"] = Property{ID: "C04", Level: "model_checking",
		Explain: "BooleanOpPolyTree64 and the flat result computed in one symbolic run on every feasible path: same polygons (bijection), children inside parents and inside no sibling (per grid cell), IsHole iff negatively oriented, levels alternate, a hole's parent is the innermost containing boundary",
		Assumes: []string{floatAssume, heapAssume, solverAssume, "the floating-point tree variant is C07's plumbing subject"},
		Jobs:    c04}

	// ---- C09 ------------------------------------------------------------
	var c09 []Job
	c09b := "open axis-parallel subject polyline (shape 0 horizontal segment, 1 vertical segment, 2/3 L shapes, 4 collinear triple, 5 four-point staple) with symbolic coordinates x symbolic clip rectangle (either orientation); last arg 1 adds a symbolic closed subject rectangle overlapping the clip in staggered position; ExecuteOC; a symbolic point on each subject segment decides coverage"
	for _, a := range [][]int64{{0, 1, 1, 0}, {1, 3, 0, 0}, {2, 1, 1, 0}, {3, 3, 2, 0}, {4, 1, 3, 0}, {0, 2, 1, 1}, {1, 2, 0, 0}, {5, 1, 1, 0}, {5, 3, 0, 0}} {
		c09 = append(c09, Job{Harness: "H_C09_open", Args: a, Tier: "quick", Covers: []string{"C09.done"}, TimeoutMs: 60000, Bounds: c09b})
	}
	for _, a := range [][]int64{{2, 3, 0, 1}, {4, 3, 1, 0}, {0, 4, 1, 0}} {
		c09 = append(c09, Job{Harness: "H_C09_open", Args: a, Tier: "thorough", Covers: []string{"C09.done"}, TimeoutMs: 60000, Bounds: c09b})
	}
	ps["C09"] = Property{ID: "C09", Level: "model_checking",
		Explain: "the open-path branches of the sweep executed on every feasible path: the closed solution is identical to the run without open paths, every open output vertex lies on the subject line, and a symbolic point of the subject line more than 2 units from every closed edge is covered iff the clip type's inside/outside condition holds under the exact winding number",
		Assumes: []string{floatAssume, heapAssume, solverAssume, "sloped open paths and clip polygons other than one rectangle are outside these jobs"},
		Jobs:    c09}

	// ---- C08 ------------------------------------------------------------
	var c08 []Job
	c08b := "pattern: symbolic rectangle (either orientation); path: symbolic axis-parallel polyline (shape 0..4, open) or symbolic rectangle (shape 5, closed); coordinates in [-2^27, 2^27]; second arg 1 = MinkowskiDiff64; region compared at a fully symbolic probe with the closed-form expected region (segment (+) pattern boundary = rectangle minus hole)"
	for _, a := range [][]int64{{0, 0}, {1, 1}, {2, 0}, {4, 0}} {
		c08 = append(c08, Job{Harness: "H_C08_mink", Args: a, Tier: "quick", Covers: []string{"C08.done"}, TimeoutMs: 60000, Bounds: c08b})
	}
	for _, a := range [][]int64{{2, 1}, {3, 0}, {3, 1}, {0, 1}, {1, 0}, {5, 0}, {5, 1}} {
		c08 = append(c08, Job{Harness: "H_C08_mink", Args: a, Tier: "thorough", Covers: []string{"C08.done"}, TimeoutMs: 60000, Bounds: c08b})
	}
	c08 = append(c08, Job{Harness: "H_C08_comm", Tier: "thorough", Covers: []string{"C08.comm.done"}, Bounds: "two symbolic rectangles: MinkowskiSum64(A,B,closed) and (B,A,closed) agree on every grid cell"})
	ps["C08"] = Property{ID: "C08", Level: "model_checking",
		Explain:  "minkowskiInternal and the real Union executed on every feasible path; result compared at a symbolic probe with the exact swept region of a rectangle boundary along an axis-parallel path; result canonical",
		Assumes:  []string{floatAssume, heapAssume, solverAssume, "non-rectangular patterns and sloped paths are outside these jobs"},
		Monitors: []string{"caller-slice-write"},
		Jobs:     c08}

	// ---- C18 ------------------------------------------------------------
	c18 := []Job{
		{Harness: "H_C12_hist", Args: []int64{0, 2, 1, 0}, Tier: "quick", Covers: []string{"C12.done"}, Bounds: rb(0) + "; boolean engine (two executions on one object and a fresh one)"},
		{Harness: "H_C04_R", Args: []int64{6, 2, 0}, Tier: "quick", Covers: []string{"C04.done"}, Bounds: "PolyTree execution on three nested symbolic rectangles"},
		{Harness: "H_C06_rect", Args: []int64{5}, Tier: "quick", Summaries: []string{"isCollinear"}, NoLive: true, Covers: []string{"C06.done"}, Bounds: "rectangle clipping of a symbolic notch polygon"},
		{Harness: "H_C11_lines", Args: []int64{2}, Tier: "quick", Covers: []string{"C11.done"}, Bounds: "rectangle clipping of a symbolic L polyline"},
		{Harness: "H_C09_open", Args: []int64{2, 1, 1, 0}, Tier: "quick", Covers: []string{"C09.done"}, Bounds: "open-path clipping"},
		{Harness: "H_C08_mink", Args: []int64{0, 0}, Tier: "quick", Covers: []string{"C08.done"}, Bounds: "Minkowski sum of a symbolic rectangle and segment"},
		{Harness: "H_C15_closed", Args: []int64{4}, Tier: "quick", Summaries: []string{"isCollinear"}, NoLive: true, Covers: []string{"C15.closed.done"}, Bounds: "TrimCollinear64, n=4"},
		{Harness: "H_C16_simplify", Args: []int64{5, 1}, Tier: "quick", Summaries: []string{"PerpendicDistFromLineSqr64"}, NoLive: true, Covers: []string{"C16.simplify.done"}, Bounds: "SimplifyPath64, n=5"},
		{Harness: "H_C18_inflate", Args: []int64{0}, Tier: "quick", Covers: []string{"C18.inflate.done"}, Bounds: "InflatePaths64/InflatePathsD with options on a concrete square (Miter): every Store on the path is monitored"},
		{Harness: "H_C18_inflate", Args: []int64{3}, Tier: "quick", Covers: []string{"C18.inflate.done"}, Bounds: "the same with Round joins"},
		{Harness: "H_C14_pip", Args: []int64{3}, Tier: "thorough", Covers: []string{"C14.pip.reached"}, TimeoutMs: 120000, Bounds: "PointInPolygon"},
		{Harness: "H_C19_R", Args: []int64{0, 1}, Tier: "thorough", Covers: []string{"C19.done"}, Bounds: rb(0) + "; all clip types"},
	}
	ps["C18"] = Property{ID: "C18", Level: "other",
		Explain:  "schedules are not made symbolic. What is decided, for every feasible path of the listed harnesses (all symbolic inputs within their bounds), is the sufficient condition for race freedom and schedule independence: after package initialisation no path stores through an address rooted in a package-level variable, and no path stores into a backing array reachable from a caller-supplied argument (the executor's heap monitor checks every Store instruction). Calls on distinct objects are then functions of their arguments only, so they commute and any interleaving returns the sequential results. Goroutine, channel and select instructions abort the path and are reported.",
		Assumes:  []string{heapAssume, solverAssume, "stubbed library calls (govalues/decimal, math, sort internals) keep no unsynchronised shared state", "the argument is a sufficient condition, not an exploration of interleavings"},
		Monitors: []string{"global-write", "caller-slice-write", "nondeterminism-source"},
		Jobs:     c18}

	// ---- C13 ------------------------------------------------------------
	c13 := []Job{
		{Harness: "H_C13_kernels", Args: []int64{29}, Tier: "quick", Covers: []string{"C13.kernels.done"}, Bounds: "CrossProduct with one product syntactically zero, coordinates symbolic in [-2^29, 2^29]: sign exact (must hold)"},
		{Harness: "H_C13_kernels", Args: []int64{61}, Tier: "quick", Excuses: []string{"C13.int64-products"}, KnownOnly: true, Bounds: "the same at the advertised magnitude 2^61: the 64-bit product of two coordinate differences wraps (known finding)"},
		{Harness: "H_C13_mul128", Args: []int64{62}, Tier: "quick", Covers: []string{"C13.mul128.done"}, Bounds: "multiplyUInt64 (the 128-bit product behind isCollinear) on two symbolic operands in [0, 2^62): Hi:Lo equals the sum of the four 32-bit limb products"},
		{Harness: "H_C13_mul128_table", Tier: "quick", Covers: []string{"C13.mul128.table.done"}, Bounds: "the same on all pairs of 19 fixed limb-boundary operands, evaluated concretely by the interpreter (no symbolic input)"},
		{Harness: "H_C13_bool", Args: []int64{0, 1, 1}, Tier: "quick", Covers: []string{"C13.bool.done"}, TimeoutMs: 20000,
			Bounds: rb(0) + "; the whole input translated by a symbolic vector with |tx|,|ty| <= 2^52 - 2^29; the translated run must return the translated solution vertex for vertex"},
		{Harness: "H_C13_bool", Args: []int64{0, 2, 0}, Tier: "thorough", Covers: []string{"C13.bool.done"}, TimeoutMs: 20000, Bounds: rb(0) + "; Union EvenOdd translated"},
		{Harness: "H_C13_bool", Args: []int64{0, 4, 3}, Tier: "thorough", Covers: []string{"C13.bool.done"}, TimeoutMs: 20000, Bounds: rb(0) + "; Xor Negative translated"},
	}
	ps["C13"] = Property{ID: "C13", Level: "model_checking",
		Explain: "translation: the same symbolic run on the input and on its translate by a symbolic vector up to 2^52 (differences are translation-free after affine normalisation, so any dependence on absolute coordinates shows up as a different decision or a different output term); scaling: the integer kernel decided at 2^29 and refuted at 2^61 by a solver witness replayed natively. Region-level scaling of whole operations to 2^61 is not decided",
		Assumes: []string{floatAssume, heapAssume, solverAssume},
		Jobs:    c13}

	// ---- C07 ------------------------------------------------------------
	var c07 []Job
	c07b := "symbolic real rectangle(s) in [-1000, 1000] (reals: a superset of the float64 inputs), precision as given; the reference side is the 64-bit entry point on ScalePathsDToPaths64(input, 10^p), unscaled by the library's own ScalePaths64ToPathsD(., 1/10^p); decimal quantiser modelled by its contract (nearest integer, |q - v| <= 1/2, as an uninterpreted function of v)"
	for _, a := range [][]int64{{1, 1, 2}, {2, 0, 2}, {1, 1, -1}, {3, 1, 1}} {
		tier := "quick"
		if a[2] == 1 {
			tier = "thorough"
		}
		c07 = append(c07, Job{Harness: "H_C07_bool", Args: a, Tier: tier, Covers: []string{"C07.bool.done"}, Bounds: "BooleanOpPathsD(ct, fr, p): " + c07b})
	}
	c07 = append(c07, Job{Harness: "H_C07_rect_trunc", Tier: "quick", Excuses: []string{"C07.rect-trunc"}, KnownOnly: true, Bounds: "RectClipPathsD with a concrete rectangle whose scaled bounds have fractional part 0.6 (known finding: ScaleRectD truncates)"})
	c07 = append(c07, Job{Harness: "H_C07_p0", Tier: "quick", Excuses: []string{"C07.precision-zero"}, KnownOnly: true, Bounds: "precision 0 on a fixed pair of squares with fractional coordinates (known finding: 0 is treated as the default 2)"})
	for _, a := range [][]int64{{0, 2}, {1, 2}} {
		c07 = append(c07, Job{Harness: "H_C07_mink", Args: a, Tier: "quick", Covers: []string{"C07.mink.done"}, Bounds: "MinkowskiSumD/DiffD(diff, p): " + c07b})
	}
	for _, a := range [][]int64{{3, 2}, {3, 1}, {0, 2}} {
		c07 = append(c07, Job{Harness: "H_C07_inflate", Args: a, Tier: "quick", Covers: []string{"C07.inflate.done"},
			Bounds: "InflatePathsD(join, p) on a CONCRETE 10x10 square, delta 5, arc tolerance 0.5, versus InflatePaths64 on the quantised input with both scalars multiplied by 10^p: a differential run of the real code through the interpreter (offset.go's sqrt/trig cannot be symbolic); no symbolic input"})
	}
	for which := int64(0); which <= 8; which++ {
		for _, pr := range []int64{9, -9, 8, -8, 2} {
			j := Job{Harness: "H_C07_precision", Args: []int64{which, pr}, Tier: "quick", Covers: []string{"C07.precision.done"},
				Bounds: "entry point 'which' (0 BooleanOpPathsD, 1 BooleanOpPolyTreeD, 2 InflatePathsD, 3 RectClipPathsD, 4 RectClipLinesPathsD, 5 MinkowskiSumD, 6 MinkowskiDiffD, 7 TrimCollinearD, 8 NewClipperD) at the given precision on a fixed pair of squares: documented panic iff outside [-8, 8]"}
			c07 = append(c07, j)
		}
	}
	ps["C07"] = Property{ID: "C07", Level: "model_checking",
		Explain: "plumbing equivalence: each floating-point entry point and its 64-bit counterpart on the quantised input are executed in one symbolic run (the engine forks identically on the shared quantised integers) and the outputs compared term for term; the precision-range panic is decided for every entry point",
		Assumes: []string{floatAssume, heapAssume, solverAssume, "govalues/decimal is stubbed by its contract on symbolic values (real library on concrete ones); its own strconv-based numerics are outside the claim", "PolyTreeD, InflatePathsD and SimplifyPathD plumbing are covered only by the precision jobs"},
		Jobs:    c07}

	return ps
}
