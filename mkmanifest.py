#!/usr/bin/env python3
"""Generates /verif/MANIFEST.json from the table below (kept in one place so
that claimed checks and not_applicable always cover all 19 properties)."""
import json, sys

MC = "model_checking"
TECH = "SSA symbolic execution of the real package + SMT (z3 5.1.0); bounded symbolic model checking"

claimed = {
 "C14": dict(
    text="Bounded symbolic model checking of the real predicates: every coordinate is a symbolic integer in [-2^29, 2^29]; the solver decides the equivalence with exact integer arithmetic for all values (unsat) or returns a witness that is replayed natively. Right level because the interesting operands (differences of exactly 1, products past 2^53) are measure-zero for sampling but are single satisfiable queries here.",
    note="Trusted: go/ssa, the gosymx executor (validated per path against the native run), z3. Known finding triSign(1) is excluded by a site predicate at productsAreEqual and re-detected in a second run.",
    ref="3/C14"),
 "C01": dict(
    text="Every feasible path of the real sweep on family R(1,1) (two axis-aligned rectangles, all 8 side coordinates symbolic in [-2^29,2^29], both orientations), region compared with an exact winding oracle on every grid cell; the solver decides path feasibility and, for a mismatching cell, whether it holds a probe point more than 2 units from every input edge. Covers every touching/shared-edge/containment configuration at every magnitude, which sampling cannot.",
    note="Bound: rectilinear inputs only in this tier; sloped edges and more rectangles are separate jobs. Float operations modelled with relative error 2^-53 per operation (over-approximation; sat models must replay natively).",
    ref="3/C01"),
 "C15": dict(
    text="TrimCollinear64 executed symbolically on closed paths of 3-5 and open paths of 2-5 fully symbolic points (coordinates in [-2^29,2^29]); every loop path is explored and the exact-arithmetic oracles (cyclic sub-sequence embedding, shoelace identity, no collinear consecutive triple, idempotence, input untouched, end points kept) are decided by the solver for all coordinate values. Differences of exactly 1, spikes and runs across index 0 are cells of the exploration rather than lucky samples.",
    note="isCollinear is replaced by its exact-cross-product summary, whose lemma (H_C14_collinear on the real predicate) is discharged in the same check. Known findings: triSign(1) (site predicate), single-pass spike (family H_C15_spike6). n >= 6 outside the bound except the spike family.",
    ref="3/C15"),
 "C16": dict(
    text="Kernel PerpendicDistFromLineSqr64 decided on the real code for all coordinates (sign, exact zero set, translation invariance); SimplifyPath64's bookkeeping decided on the real code with the kernel abstracted to an arbitrary non-negative function (hence for every kernel) for n <= 5 (thorough 7) with symbolic epsilon: sub-sequence, end points, no retained vertex within epsilon of its retained neighbours; epsilon 0: exact area identity and translation of the retained set.",
    note="Bookkeeping jobs use an uninterpreted kernel (sound for unsat; a sat model there must still replay natively). SimplifyPathD/Paths variants and power-of-two scaling are not decided here.",
    ref="3/C16"),
 "C02": dict(
    text="Every feasible path of the real sweep on rectilinear family R(1,1) (thorough: all 16 operations x both settings of reverse-solution and preserve-collinear, and R(2,0)): each output path has >= 3 vertices, no repeated consecutive vertex (solver, all coordinate values), winding 0/1 (0/-1 with reverse-solution) on every grid cell that can hold a probe 2 units from the solution's own edges, and re-uniting the solution leaves the region unchanged.",
    note="Engine options are set in-package by the harness (no source hook). Bounds: rectilinear inputs; float model as in C01.",
    ref="3/C02"),
 "C12": dict(
    text="Bounded call histories (<= 4 calls: other Execute first, tree execution first, split AddPaths, other add order, pre-filled solution arguments, repeated execution, tree after paths) on one engine object with fully symbolic R(1,1) geometry, compared vertex-for-vertex (or region-for-region where the add order differs) with a fresh engine on every feasible path; floating-point engine with a pre-filled solution; every store into a caller-owned backing array is flagged by the executor's heap monitor on all of these paths.",
    note="History length <= 4, rectilinear geometry. ClipperOffset histories are covered under C05's jobs when present.",
    ref="3/C12"),
 "C17": dict(
    text="The same boolean operation executed on two spellings of the same fully symbolic R(1,1) input inside one symbolic run (start vertex rotated, vertex repeated, reversed paths with the matching fill rule, subject/clip exchanged, lattice symmetries; thorough: path permutation and R(2,0)), regions compared on every grid cell; determinism by construction of the executor (any nondeterminism source aborts the path and is reported) plus the twice-run harness.",
    note="Bounds: rectilinear inputs. The sort is the toolchain's real pdqsort interpreted from SSA, so tie order is the real one.",
    ref="3/C17"),
 "C19": dict(
    text="All four clip types (plus Difference(C,S) and UnionPaths64) run on the same fully symbolic R(1,1) input in one symbolic run; the set identities (Xor = Union minus Intersection, Difference = subject minus Intersection, pairwise disjointness, parts make up Union, UnionPaths64 = Union with empty clip) are decided per grid cell on every feasible path.",
    note="Pointwise identities imply the area identities up to the band; the area formulas themselves and inputs with thousands of vertices are outside the bound.",
    ref="3/C19"),
 "C03": dict(
    text="Every exported 64-bit entry point (boolean operations in paths and tree form with closed and open subjects, rectangle clipping of polygons and lines, Minkowski, path utilities) executed symbolically on degenerate input families (empty set, empty path, 1/2 points, collinear, repeated point, zero-area, coincident rectangles, repeated vertices; empty and inverted rectangles; clip type values 0..5, fill rule values 0..4) with symbolic coordinates: a panic, a failed Execute, or an exhausted loop budget on any feasible path is reported once it reproduces natively.",
    note="Coordinates in [-64,64] (magnitude is C13's subject); 2-point paths axis-parallel; offset entry points are exercised by C05/C10's jobs and the precision panic by C07's. Known finding: Execute(NoClip) returns false on a fresh engine.",
    ref="3/C03"),
 "C06": dict(
    text="RectClipPaths64 executed on every feasible path for a clip rectangle with 4 symbolic sides against a symbolic rectangle path (both orientations) and a concave notch 8-gon whose arms the rectangle cuts: result vertices within the rectangle, winding number preserved inside / zero outside at a fully symbolic probe point (exact winding oracle, solver decides for all probes), inside-unchanged, outside-vanishes, no panic.",
    note="isCollinear summarised (lemma in the same check). Sloped input edges outside these jobs. Intersection rounding is over-approximated (off-by-one both ways), which the 2-unit band absorbs. The thorough tier's full L-hexagon family leaves about 46 of 5773 winding obligations undecided at the 60 s solver limit (reported as inconclusive in the evidence).",
    ref="3/C06"),
 "C11": dict(
    text="RectClipLinesPaths64 executed on every feasible path for a symbolic rectangle against symbolic axis-parallel polylines (2-point segments, L shapes, collinear triples): vertices inside the rectangle and on the line, pieces not closed up, and a symbolic point of the input line more than 2 units from the rectangle boundary is covered iff it is inside the rectangle (two-point crossing segments included).",
    note="Sloped segments and polylines of more than 3 points outside these jobs.",
    ref="3/C11"),
 "C04": dict(
    text="BooleanOpPolyTree64 and the flat BooleanOpPaths64 run in one symbolic execution on R(2,0), R(1,1), three strictly nested rectangles, crossing bars (plus-shaped hole) and subject minus full-height strip plus hole (result split by horizontal joins), all sides symbolic: tree polygons are exactly the flat result (bijection), every node lies inside its parent and inside no sibling (per grid cell), IsHole() iff negatively oriented, levels alternate, a hole's parent is the innermost containing boundary.",
    note="Rectilinear families with at most three rectangles, three-rectangle ones restricted as stated in the job bounds; the floating-point tree variant is not decided here.",
    ref="3/C04"),
 "C07": dict(
    text="Plumbing equivalence decided on the real code: BooleanOpPathsD and MinkowskiSumD/DiffD and their 64-bit counterparts on the quantised input run in one symbolic execution over symbolic real inputs and the outputs are compared term for term (identical float operation keys); RectClipPathsD/LinesPathsD likewise in the thorough tier; the documented precision-range panic is decided for all nine D entry points at precisions 9, -9, 8, -8, 2.",
    note="govalues/decimal is stubbed by its contract on symbolic values (nearest integer as an uninterpreted function with |q-v|<=1/2); its own numerics are outside the claim. PolyTreeD/InflatePathsD/SimplifyPathD only through the precision jobs. Known findings: ScaleRectD truncation, precision 0 means default 2.",
    ref="3/C07"),
 "C08": dict(
    text="minkowskiInternal and the real Union executed on every feasible path for a symbolic rectangle pattern and symbolic axis-parallel paths (segments, L shapes, collinear triples; closed rectangle in the thorough tier), sum and difference: the result's region at a fully symbolic probe equals the closed-form swept region (segment (+) pattern boundary = rectangle minus hole), the result is canonical, the inputs are not written.",
    note="Rectangular patterns and axis-parallel paths only; coordinates in [-2^27,2^27] so sums stay in the domain.",
    ref="3/C08"),
 "C09": dict(
    text="The open-path branches of the sweep executed on every feasible path for symbolic axis-parallel open polylines against a symbolic clip rectangle (and optionally a symbolic closed subject rectangle): the closed solution is vertex-for-vertex the one computed without the open path, open output vertices lie on the subject line, and a symbolic point of the subject line more than 2 units from every closed edge is covered iff the clip type's inside/outside condition holds under the exact winding number.",
    note="One clip rectangle, axis-parallel polylines of up to 3 points; the closed subject is restricted to a staggered overlap with the clip.",
    ref="3/C09"),
 "C13": dict(
    text="Translation: the boolean operation on fully symbolic R(1,1) and on its translate by a symbolic vector of magnitude up to 2^52 - 2^29 run in one symbolic execution; the translated run must return the translated solution vertex for vertex on every feasible path. Scaling: the cross-product kernel's sign is proved at 2^29 and refuted at the advertised 2^61 by a solver witness replayed natively (known finding).",
    note="Region-level scaling to 2^61 for whole operations is not decided; translation is claimed for the boolean operations on R(1,1) only.",
    ref="3/C13"),
 "C18": dict(
    cat="other",
    text="Schedules are not made symbolic. Decided instead, for every feasible path of eight representative harnesses covering the engine, tree building, rectangle clipping, open paths, Minkowski and the path utilities (all symbolic inputs within their bounds): after package initialisation no Store goes through an address rooted in a package-level variable and none into a backing array reachable from a caller-supplied argument (executor heap monitor on every Store instruction); goroutine/channel/select instructions abort the path. This is the sufficient condition for calls on distinct objects to commute.",
    note="A sufficient condition, not an exploration of interleavings; stubbed library calls are assumed to keep no unsynchronised shared state. offset.go is not covered.",
    tech="SSA symbolic execution with a heap-write monitor over all feasible paths (solver decides feasibility); independence argument",
    ref="3/C18"),
}

not_applicable = {
 "C05": "offsetting takes sqrt/acos/atan2/sin/cos of values derived from symbolic geometry; no installed solver has a usable theory for them and the concrete-normals fallback (symbolic translation of concrete polygons) produced rounding atoms per vertex that z3 did not decide within the available time; see DESIGN.md section 5",
 "C10": "same code path as C05 (offset.go: getUnitNormal, doRound/doSquare/doMiter): not encodable within reach; see DESIGN.md section 5",
}

ALL = ["C%02d" % i for i in range(1, 20)]
pending = "check not built yet in this session; will be claimed once its harnesses run clean on the unchanged tree"

def main():
    checks = []
    for pid in ALL:
        if pid in claimed:
            c = claimed[pid]
            checks.append({
                "property_id": pid,
                "quick_cmd": "./check.sh %s quick" % pid,
                "thorough_cmd": "./check.sh %s thorough" % pid,
                "evidence_file": "/verif/evidence/%s.json" % pid,
                "replay_cmd_template": "bin/gosymx replay --file {path}",
                "engine": "gosymx",
                "level_claimed": {"category": c.get("cat", MC), "text": c["text"], "design_ref": c["ref"]},
                "level_note": c["note"],
                "technique": c.get("tech", TECH),
            })
    na = []
    for pid in ALL:
        if pid not in claimed:
            na.append({"property_id": pid, "reason": not_applicable.get(pid, pending)})
    m = {
        "version": 1,
        "setup_cmd": "./setup.sh",
        "hooks": {
            "guard": "verif",
            "enable": "no source hooks in /repo: harness files (//go:build verif) are injected as /repo/zz_verif_*.go by go/packages overlay (symbolic run) and go test -overlay -tags verif (native replay)",
            "baseline_off_cmd": "cd /repo && GOFLAGS=-mod=mod GOPROXY=off go test -vet=off -count=1 ./...",
            "source_commits": [],
            "add_only": True,
        },
        "engines": [{
            "name": "gosymx", "path": "/verif/engine",
            "serves_properties": sorted(claimed.keys()),
            "kind_free_text": "go/ssa-based forking symbolic executor (symbolic scalars over a concrete heap, merge mode for leaf functions) emitting Int/Real SMT-LIB2 to z3 5.1.0; native replay of every model through go test -overlay",
        }],
        "checks": checks,
        "not_applicable": na,
        "notes": "All checks are solver-based: the real functions are executed symbolically from /repo's current source on every run. See DESIGN.md.",
    }
    json.dump(m, open("/verif/MANIFEST.json", "w"), indent=1)
    print("claimed", sorted(claimed.keys()), "not_applicable", [x["property_id"] for x in na])

main()
