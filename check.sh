#!/bin/sh
# usage: ./check.sh <property> <tier>
cd "$(dirname "$0")"
[ -x bin/gosymx ] || ./setup.sh >/dev/null 2>&1
exec bin/gosymx check --property "$1" --tier "${2:-quick}"
